"""Rules over fparser.common.readfortran shared by C04, C05, C07, C11, C12, C13, C15."""
import ast

from sa import astutil as A
from sa import flow as F
from sa import defuse
from sa.model import AnalysisError
from sa.report import RuleResult

RF = "fparser.common.readfortran"

LEFT_PUSH = {"appendleft", "extendleft"}
RIGHT_PUSH = {"append", "extend"}
LEFT_POP = {"popleft"}
RIGHT_POP = {"pop"}


def reader_func(m, name):
    return m.need_func(RF, "FortranReaderBase." + name)


# ------------------------------------------------------------------------------------------------
# queue discipline (C12.R1, C11, C13.R2)
# ------------------------------------------------------------------------------------------------
def fifo_ops(m, f):
    """(family, call node, receiver text) for every operation on a fifo_item queue in f, resolving local aliases
    such as `put_item = self.fifo_item.append`."""
    aliases = {}
    for n in A.body_nodes(f.node):
        if isinstance(n, ast.Assign) and len(n.targets) == 1 and isinstance(n.targets[0], ast.Name) \
                and isinstance(n.value, ast.Attribute) and isinstance(n.value.value, ast.Attribute) and n.value.value.attr == "fifo_item":
            aliases[n.targets[0].id] = (n.value.attr, A.text(n.value.value))
    ops = []
    for c in A.calls(f.node):
        fn = c.func
        meth = recv = None
        if isinstance(fn, ast.Attribute) and isinstance(fn.value, ast.Attribute) and fn.value.attr == "fifo_item":
            meth, recv = fn.attr, A.text(fn.value)
        elif isinstance(fn, ast.Name) and fn.id in aliases:
            meth, recv = aliases[fn.id]
        elif isinstance(fn, ast.Attribute) and isinstance(fn.value, ast.Name) and fn.attr == "insert" and False:
            pass
        if meth is None:
            continue
        if meth in LEFT_PUSH or (meth == "insert" and c.args and A.const(c.args[0]) == 0):
            fam = "left-push"
        elif meth in RIGHT_PUSH:
            fam = "right-push"
        elif meth in LEFT_POP or (meth == "pop" and c.args and A.const(c.args[0]) == 0):
            fam = "left-pop"
        elif meth in RIGHT_POP:
            fam = "right-pop"
        elif meth in ("clear",):
            fam = "clear"
        else:
            fam = "other:" + meth
        ops.append((fam, c, recv))
    return ops


QUEUE_TABLE = {
    # function -> allowed families, with the reason confirmed by reading
    "FortranReaderBase.put_item": ({"left-push"}, "an item given back must be the next one delivered"),
    "FortranReaderBase._next": ({"left-pop", "left-push"}, "consumes from the front; the parts of a ';' line go back to the front"),
    "FortranReaderBase.get_source_item": ({"right-push", "left-pop"}, "comments found inside a statement queue up behind it"),
    "FortranReaderBase.handle_inline_comment": ({"right-push"}, "a trailing comment queues up behind its statement"),
}


def rule_queue(m, rid):
    r = RuleResult(rid, "queue discipline of the reader's item buffer: consumers pop left, give-back pushes left, discovered comments push right")
    r.floor = 8
    path = m.modfile[RF]
    seen = set()
    for (p, q), f in sorted(m.funcs.items()):
        if p != path:
            continue
        ops = fifo_ops(m, f)
        # direct attribute uses that are not calls (e.g. len(self.fifo_item)) are fine; assignments create the queue
        for fam, c, recv in ops:
            r.instances += 1
            seen.add(q)
            if recv != "self.fifo_item":
                r.ob(False)
                r.fail("%s|foreign-queue|%s" % (q, recv), "%s operates on another reader's queue directly (`%s`): give-back must go through "
                       "that reader's own put_item so that nested include readers stay consistent" % (q, A.text(c)[:60]), m.loc(f, c))
                continue
            ent = QUEUE_TABLE.get(q)
            if ent is None:
                r.ob(False)
                r.fail("%s|unlisted|%s" % (q, fam), "%s performs a %s on the item queue; it is not one of the functions confirmed to own "
                       "the queue" % (q, fam), m.loc(f, c))
                continue
            seen.add(q)
            if fam.startswith("other") or fam == "clear":
                r.error("%s: queue operation `%s` not recognised" % (q, A.text(c)[:50]))
                continue
            ok = fam in ent[0]
            r.ob(ok, "%s: %s (`%s`) -- %s" % (q, fam, A.text(c)[:40], ent[1]))
            if not ok:
                r.fail("%s|%s" % (q, fam), "%s performs a %s on the item queue (`%s`); allowed there: %s -- %s"
                       % (q, fam, A.text(c)[:50], sorted(ent[0]), ent[1]), m.loc(f, c))
    for q in QUEUE_TABLE:
        if q not in seen:
            r.error("%s no longer touches the item queue (anchor vanished)" % q)
    # put_item is the consumer's give-back (it pushes to the FRONT): the reader's own code, which discovers items in source order, never
    # calls it on itself -- a comment found between continuation lines would overtake the comments queued before it
    r.instances += 1
    own_calls = []
    for (p, q), f in sorted(m.funcs.items()):
        if p != path or q.endswith(".put_item"):
            continue
        for c in A.calls(f.node):
            if A.text(c.func) == "self.put_item":
                own_calls.append((q, f, c))
    r.ob(not own_calls, "no method of the reader calls self.put_item()")
    for q, f, c in own_calls:
        r.fail("%s|self-put-item" % q, "%s hands an item it has just discovered to self.put_item(), the consumer's give-back operation, which "
               "inserts at the front of the queue: items discovered earlier and still queued (the comments of the same statement) come "
               "out after it, in the wrong order" % q, m.loc(f, c))
    # _next: the split parts are reversed before being pushed left one by one (or extendleft of the reversed list)
    nx = reader_func(m, "_next")
    r.instances += 1
    txt = [A.text(s) for s in ast.walk(nx.node) if isinstance(s, (ast.Expr, ast.For))]
    rev = any(isinstance(c, ast.Call) and isinstance(c.func, ast.Attribute) and c.func.attr == "reverse" for c in A.calls(nx.node)) or \
        any(isinstance(c, ast.Call) and A.dotted(c.func) == "reversed" for c in A.calls(nx.node))
    pushes = [c for fam, c, recv in fifo_ops(m, nx) if fam == "left-push"]
    ok = rev and bool(pushes)
    r.ob(ok, "_next: ';' parts reversed before being pushed to the front: %s" % rev)
    if not ok:
        r.fail("_next|order", "_next pushes the parts of a ';'-separated line to the front of the queue without reversing them first: "
               "the statements would come out in reverse order", m.loc(nx))
    # put_item forwards to the nested reader
    pi = reader_func(m, "put_item")
    r.instances += 1
    fwd = [c for c in A.calls(pi.node) if A.text(c.func) == "self.reader.put_item"]
    guarded = False
    for n in A.body_nodes(pi.node):
        if isinstance(n, ast.If) and A.text(n.test) in ("self.reader", "self.reader is not None"):
            guarded = any(A.text(c.func) == "self.reader.put_item" for s in n.body for c in ast.walk(s) if isinstance(c, ast.Call)) and \
                any(fam == "left-push" for s in n.orelse for fam, c, recv in _ops_in(m, pi, s))
    r.ob(guarded, "put_item: forwards to self.reader.put_item when an include reader is active, else pushes left")
    if not guarded:
        r.fail("put_item|forward", "put_item does not hand the item to the active include reader's own put_item (get/put asymmetry: "
               "next() reads from that reader)", m.loc(pi))
    return r


def _ops_in(m, f, stmt):
    out = []
    for fam, c, recv in fifo_ops(m, f):
        for x in ast.walk(stmt):
            if x is c:
                out.append((fam, c, recv))
    return out


# ------------------------------------------------------------------------------------------------
# line counter pairing (C12.R2)
# ------------------------------------------------------------------------------------------------
class CounterClient(F.Client):
    track = {"$reads", "$incs", "$pushes", "$decs"}

    def call_raises(self, call, st):
        t = A.text(call.func)
        if t == "self.filo_line.pop":
            return ("IndexError",)
        if t == "next" and call.args and A.text(call.args[0]) == "self.source":
            return ("StopIteration",)
        return ()

    def _bump(self, st, name):
        v = st.get(name)
        n = next(iter(v))[1] if len(v) == 1 and next(iter(v))[0] == "c" else 0
        return st.set(name, F.const(min(n + 1, 3)))

    def call_effect(self, call, st):
        t = A.text(call.func)
        if t == "self.filo_line.pop" or (t == "next" and call.args and A.text(call.args[0]) == "self.source"):
            return (self._bump(st, "$reads"),)
        if t in ("self.filo_line.append", "self.filo_line.insert"):
            return (self._bump(st, "$pushes"),)
        return (st,)

    def stmt_effect(self, s, st):
        if isinstance(s, ast.AugAssign) and A.text(s.target) == "self.linecount" and A.const(s.value) == 1:
            if isinstance(s.op, ast.Add):
                return self._bump(st, "$incs")
            if isinstance(s.op, ast.Sub):
                return self._bump(st, "$decs")
        if isinstance(s, ast.Assign) and any(A.text(t) == "self.linecount" for t in s.targets):
            return st.set("$incs", F.const(99))
        return st


def rule_linecount(m, rid):
    r = RuleResult(rid, "the physical line counter moves by exactly one with every line taken from / given back to the line buffer or source")
    r.floor = 2
    path = m.modfile[RF]
    users = []
    for (p, q), f in sorted(m.funcs.items()):
        if p != path:
            continue
        t = " ".join(A.text(n) for n in A.body_nodes(f.node) if isinstance(n, (ast.AugAssign, ast.Assign, ast.Call)))
        if "self.filo_line." in t or "next(self.source)" in t or any(
                isinstance(n, (ast.AugAssign, ast.Assign)) and "self.linecount" in [A.text(x) for x in (n.targets if isinstance(n, ast.Assign) else [n.target])]
                for n in A.body_nodes(f.node)):
            users.append(f)
    for f in users:
        if f.qualname.endswith("__init__"):
            continue
        r.instances += 1
        fl = F.Flow(m, f, CounterClient())
        z = F.const(0)
        out = fl.run(F.State({"$reads": z, "$incs": z, "$pushes": z, "$decs": z}))
        bad = None
        n = 0
        for st, node in out.ret:
            n += 1
            g = lambda k: next(iter(st.get(k)))[1]
            if g("$reads") != g("$incs") or g("$pushes") != g("$decs"):
                bad = (st, node)
        r.ob(bad is None, "%s: %d return states, lines taken == increments and lines given back == decrements on each" % (f.qualname, n))
        if bad:
            st, node = bad
            g = lambda k: next(iter(st.get(k)))[1]
            r.fail("%s|unbalanced" % f.qualname, "%s can return at `%s` having taken %d line(s) with %d increment(s) of linecount and given back "
                   "%d with %d decrement(s): line numbers of all later items are off" % (
                       f.qualname, A.text(node)[:40] if node else "end", g("$reads"), g("$incs"), g("$pushes"), g("$decs")),
                   m.loc(f, node) if node is not None else m.loc(f))
    names = {f.qualname for f in users}
    for need in ("FortranReaderBase.get_single_line", "FortranReaderBase.put_single_line"):
        if need not in names:
            r.error("%s no longer touches the line buffer/counter (anchor vanished)" % need)
    return r


# ------------------------------------------------------------------------------------------------
# span currency in get_source_item (C12.R3, C07)
# ------------------------------------------------------------------------------------------------
class SpanClient(F.Client):
    """Events: R = a physical line is read; A = statement text is appended; E = endlineno := linecount;
    S = startlineno := linecount.  Abstract facts:
       $n      number of reads so far (0,1,2=many)
       $ecur   endlineno equals the current linecount
       $lacur  the last appended text came from the current line
       $rel    relation of endlineno to the line of the last appended text: none | eq | lt | gt
       $start  startlineno relation: unset | first (assigned from linecount after exactly one read) | bad
    """
    track = {"$n", "$ecur", "$lacur", "$rel", "$start", "line", "lines", "line_content"}

    def call_value(self, call, st):
        # ''.join(<empty list>) and .strip()/.rstrip() of an empty string are empty
        fn = call.func
        if isinstance(fn, ast.Attribute) and fn.attr == "join" and len(call.args) == 1 and isinstance(call.args[0], ast.Name):
            if st.get(call.args[0].id) == F.FALSY:
                return F.FALSY
        if isinstance(fn, ast.Attribute) and fn.attr in ("strip", "rstrip", "lstrip") and isinstance(fn.value, ast.Call):
            if self.call_value(fn.value, st) == F.FALSY:
                return F.FALSY
        return F.TOP

    def __init__(self, m, f):
        self.m = m
        self.f = f
        self.read_aliases = {"self.get_single_line", "get_single_line"}
        self.append_aliases = {"lines.append", "lines_append"}
        for n in A.body_nodes(f.node):
            if isinstance(n, ast.Assign) and len(n.targets) == 1 and isinstance(n.targets[0], ast.Name):
                if A.text(n.value) == "self.get_single_line":
                    self.read_aliases.add(n.targets[0].id)
                if A.text(n.value) == "lines.append":
                    self.append_aliases.add(n.targets[0].id)
        # the local that holds the joined statement text (tested for emptiness before the item is built), whatever it is called
        self.track = set(type(self).track)
        for n in A.body_nodes(f.node):
            if isinstance(n, ast.Assign) and len(n.targets) == 1 and isinstance(n.targets[0], ast.Name) and ".join(lines)" in A.text(n.value):
                self.track.add(n.targets[0].id)
        # the locals that hold the first / last line number and the list of text pieces, whatever they are called: taken from the
        # item constructions (`self.line_item(text, <first>, <last>, ...)`) and the join that builds the text
        from collections import Counter
        starts, ends = Counter(), Counter()
        for c in A.calls(f.node):
            if A.text(c.func) in ("self.line_item", "self.multiline_item") and len(c.args) >= 3:
                for cnt, a in ((starts, c.args[1]), (ends, c.args[2])):
                    if isinstance(a, ast.Name):
                        cnt[a.id] += 1
        self.start_var = starts.most_common(1)[0][0] if starts else "startlineno"
        self.end_var = ends.most_common(1)[0][0] if ends else "endlineno"
        self.list_vars = set()
        for n in A.body_nodes(f.node):
            if isinstance(n, ast.Call) and isinstance(n.func, ast.Attribute) and n.func.attr == "join" and len(n.args) == 1 \
                    and isinstance(n.args[0], ast.Name):
                self.list_vars.add(n.args[0].id)
        self.list_vars = self.list_vars or {"lines"}
        self.track = self.track | self.list_vars
        for n in A.body_nodes(f.node):
            if isinstance(n, ast.Assign) and len(n.targets) == 1 and isinstance(n.targets[0], ast.Name) \
                    and any(".join(%s)" % v in A.text(n.value) for v in self.list_vars):
                self.track.add(n.targets[0].id)
        # the local that receives the physical lines read (tested against None by the loops)
        for n in A.body_nodes(f.node):
            if isinstance(n, ast.Assign) and len(n.targets) == 1 and isinstance(n.targets[0], ast.Name) and isinstance(n.value, ast.Call) \
                    and A.text(n.value.func) in self.read_aliases:
                self.track.add(n.targets[0].id)
        self.append_aliases |= {v + ".append" for v in self.list_vars}
        for n in A.body_nodes(f.node):
            if isinstance(n, ast.Assign) and len(n.targets) == 1 and isinstance(n.targets[0], ast.Name) \
                    and A.text(n.value) in {v + ".append" for v in self.list_vars}:
                self.append_aliases.add(n.targets[0].id)
        self.items = []   # (state, call node, which)

    def call_effect(self, call, st):
        t = A.text(call.func)
        if t in self.read_aliases:
            n = next(iter(st.get("$n")))[1]
            return (st.set("$n", F.const(min(n + 1, 2))).set("$ecur", F.FALSE).set("$lacur", F.FALSE),)
        if t in self.append_aliases:
            return (self.ev_append(st),)
        if t in ("self.line_item", "self.multiline_item") and len(call.args) >= 3:
            self.items.append((st, call))
        return (st,)

    def ev_append(self, st):
        rel = "eq" if st.get("$ecur") == F.TRUE else "lt"
        st = st.set("$lacur", F.TRUE).set("$rel", F.const(rel))
        for v in self.list_vars:
            st = st.set(v, F.TRUTHY)
        return st

    def stmt_effect(self, s, st):
        if isinstance(s, ast.Assign) and len(s.targets) == 1 and isinstance(s.targets[0], ast.Name):
            name = s.targets[0].id
            v = A.text(s.value)
            if name == self.end_var:
                if v == "self.linecount":
                    rel = st.get("$rel")
                    new = "eq" if st.get("$lacur") == F.TRUE else ("none" if rel == F.const("none") else "gt")
                    return st.set("$ecur", F.TRUE).set("$rel", F.const(new))
                return st.set("$ecur", F.FALSE).set("$rel", F.const("gt"))
            if name == self.start_var:
                n = next(iter(st.get("$n")))[1]
                ok = v == "self.linecount" and n == 1
                return st.set("$start", F.const("first" if ok else "bad"))
            if name in self.list_vars and isinstance(s.value, ast.List) and s.value.elts:
                return self.ev_append(st)
        return st


def rule_span(m, rid):
    r = RuleResult(rid, "the (first,last) span of a statement item is the line of its first read and the line of its last contributed text")
    r.floor = 3
    f = reader_func(m, "get_source_item")
    cl = SpanClient(m, f)
    fl = F.Flow(m, f, cl)
    init = F.State({"$n": F.const(0), "$ecur": F.FALSE, "$lacur": F.FALSE, "$rel": F.const("none"), "$start": F.const("unset")})
    fl.run(init)
    if not cl.items:
        r.error("get_source_item: no self.line_item(...) construction reached")
        return r
    probs = {}
    sites = {}
    for st, call in cl.items:
        key = A.text(call)[:70]
        sites.setdefault(key, 0)
        sites[key] += 1
        a_start, a_end = A.text(call.args[1]), A.text(call.args[2])
        if a_start != cl.start_var or st.get("$start") != F.const("first"):
            probs.setdefault("start|" + key, ("the item's first line (`%s`) is not the line counter taken right after the first physical "
                                              "read of the statement" % a_start, call))
        text_arg = A.text(call.args[0])
        is_error_item = len(call.args) >= 6 or any(k.arg == "errmessage" for k in call.keywords)
        if is_error_item:
            continue
        if a_end == cl.end_var:
            if st.get("$rel") != F.const("eq"):
                probs.setdefault("end|" + key, ("the item's last line `" + cl.end_var + "` is %s the line of the last text appended to the "
                                                "statement (relation %s)" % ({"lt": "before", "gt": "after"}.get(next(iter(st.get("$rel")))[1], "not tied to"),
                                                                              F.fmt(st.get("$rel"))), call))
        elif a_end == "self.linecount":
            if st.get("$lacur") != F.TRUE:
                probs.setdefault("end|" + key, ("the item's last line is the current line counter although a later physical line was read "
                                                "after the last text was appended", call))
        else:
            probs.setdefault("end|" + key, ("the item's last line is `%s`, neither %s nor the line counter" % (a_end, cl.end_var), call))
    r.instances += len(sites)
    for k in sites:
        bad = [p for p in probs if p.endswith(k)]
        r.ob(not bad, "get_source_item: `%s` reached in %d abstract states" % (k, sites[k]))
    for key, (msg, call) in sorted(probs.items()):
        r.fail("get_source_item|%s" % key, "get_source_item: %s" % msg, m.loc(f, call))
    return r


# ------------------------------------------------------------------------------------------------
# character context ends at a comment; quote state is threaded (C04.R1, C11, C12)
# ------------------------------------------------------------------------------------------------
class QuoteClient(F.Client):
    track = {"quotechar", "newquotechar", "commentline", "had_comment", "idx"}

    def call_value(self, call, st):
        return F.TOP


def rule_quote_state(m, rid):
    r = RuleResult(rid, "a comment ends character context: whenever handle_inline_comment reports a comment it returns no open quote; "
                        "callers thread the returned quote state; comment lines inside a continuation are comments whatever the state")
    r.floor = 5
    f = reader_func(m, "handle_inline_comment")
    for qv, label in ((F.NONE, "quotechar=None"), (F.TRUTHY, "quotechar=open")):
        fl = F.Flow(m, f, QuoteClient())
        out = fl.run(F.State({"quotechar": qv}))
        r.instances += 1
        bad = None
        n = 0
        for st, node in out.ret:
            if node is None or not isinstance(node.value, ast.Tuple) or len(node.value.elts) != 3:
                continue
            n += 1
            q_el, c_el = node.value.elts[1], node.value.elts[2]
            cv = fl.eval(c_el, st)
            qvv = fl.eval(q_el, st)
            may_comment = any(a != ("c", False) for a in cv)
            definitely_comment = cv == F.TRUE
            if definitely_comment and qvv != F.NONE:
                bad = (node, F.fmt(qvv))
        r.ob(bad is None, "handle_inline_comment[%s]: %d tuple returns, comment reported => quote state None" % (label, n))
        if bad:
            r.fail("handle_inline_comment|%s|%s" % (label, A.text(bad[0])[:50]),
                   "handle_inline_comment (%s) can return `%s` with a comment found and the quote state %s: the next physical line "
                   "would be read as if it were inside a character literal" % (label, A.text(bad[0])[:60], bad[1]), m.loc(f, bad[0]))
    # callers thread the state: inside loops, the quote argument is the variable that received the previous result
    g = reader_func(m, "get_source_item")
    for n in A.body_nodes(g.node):
        if isinstance(n, (ast.While,)):
            for x in ast.walk(n):
                if isinstance(x, ast.Assign) and isinstance(x.value, ast.Call) and A.text(x.value.func).endswith("handle_inline_comment") \
                        and isinstance(x.targets[0], ast.Tuple) and len(x.targets[0].elts) == 3:
                    r.instances += 1
                    recv = A.text(x.targets[0].elts[1])
                    arg = A.text(x.value.args[2]) if len(x.value.args) >= 3 else next((A.text(k.value) for k in x.value.keywords if k.arg == "quotechar"), None)
                    ok = arg == recv
                    r.ob(ok, "get_source_item loop: `%s` threads %s" % (A.text(x)[:60], recv))
                    if not ok:
                        r.fail("get_source_item|thread|%s" % recv, "inside a continuation loop handle_inline_comment is called with quote state "
                               "`%s` but its result is stored in `%s`: a character literal continued over lines loses its context"
                               % (arg, recv), m.loc(g, x))
    # a comment LINE between continuation lines is a comment whatever the quote state (F2003 3.3.1.3: the continued character
    # context resumes on the next line that is not a comment): the branch that buffers such a line must not be conditioned on it
    quote_vars = set()
    for x in ast.walk(g.node):
        if isinstance(x, ast.Assign) and isinstance(x.value, ast.Call) and A.text(x.value.func).endswith("handle_inline_comment") \
                and isinstance(x.targets[0], ast.Tuple) and len(x.targets[0].elts) == 3:
            quote_vars.add(A.text(x.targets[0].elts[1]))
    Pg = A.parents(g.node)
    for n in A.body_nodes(g.node):
        if not (isinstance(n, ast.If) and any(isinstance(c, ast.Call) and A.text(c.func).endswith("comment_item") for s_ in n.body for c in ast.walk(s_))
                and any(isinstance(s_, ast.Continue) for s_ in n.body)):
            continue
        # only the branches inside a continuation loop that look at the start of the line
        if not any(isinstance(c, ast.Call) and isinstance(c.func, ast.Attribute) and c.func.attr == "startswith" for c in ast.walk(n.test)):
            continue
        r.instances += 1
        tests = [n.test]
        x = n
        while x in Pg and not isinstance(Pg[x], (ast.While, ast.For)):
            p_ = Pg[x]
            if isinstance(p_, ast.If) and x in p_.body:
                tests.append(p_.test)
            x = p_
        dep = sorted({y.id for t in tests for y in ast.walk(t) if isinstance(y, ast.Name)} & quote_vars)
        r.ob(not dep, "get_source_item: comment line inside a continuation recognised under `%s`" % A.text(n.test)[:50])
        if dep:
            r.fail("get_source_item|continuation-comment|%s" % ",".join(dep), "get_source_item recognises a comment line between continuation lines only "
                   "when the quote state `%s` allows it: a comment line between the two halves of a continued character literal is glued "
                   "into the literal instead of being kept as a comment" % dep[0], m.loc(g, n))
    return r


# ------------------------------------------------------------------------------------------------
# the ignore filter (C11.R3)
# ------------------------------------------------------------------------------------------------
def rule_ignore_filter(m, rid):
    r = RuleResult(rid, "every item source of _next passes the ignore-comments filter; Comment.isempty returns the flag; "
                        "process_directives forces comments on")
    r.floor = 3
    nx = reader_func(m, "_next")
    r.instances += 1
    # the loop: item from fifo or get_source_item; break only if not item.isempty(ignore_comments)
    loops = [n for n in nx.node.body if isinstance(n, ast.While)]
    ok = False
    if loops:
        lp = loops[0]
        srcs = [A.text(c.func) for c in ast.walk(lp) if isinstance(c, ast.Call)]
        has_both = "self.fifo_item.popleft" in srcs and "self.get_source_item" in srcs
        brk_guard = any(isinstance(s, ast.If) and "isempty(ignore_comments)" in A.text(s.test) and
                        any(isinstance(b, ast.Break) for b in s.body) and A.text(s.test).startswith("not ") for s in lp.body)
        no_other_exit = not any(isinstance(x, (ast.Return,)) for x in ast.walk(lp)) and \
            sum(1 for x in ast.walk(lp) if isinstance(x, ast.Break)) == 1
        ok = has_both and brk_guard and no_other_exit
    r.ob(ok, "_next: both sources (queue, get_source_item) reach the `not item.isempty(ignore_comments)` test; single exit")
    if not loops:
        r.error("_next: the item loop was not found (shape changed)")
    elif not ok:
        r.fail("_next|filter", "_next no longer passes every item (from the queue and from get_source_item) through the single "
               "`not item.isempty(ignore_comments)` exit of its loop", m.loc(nx))
    k = m.key("Comment", RF)
    ie = m.method(k, "isempty")
    r.instances += 1
    rets = A.returns(ie.node) if ie else []
    ok = bool(rets) and all(isinstance(x.value, ast.Name) and x.value.id == "ignore_comments" for x in rets)
    r.ob(ok, "readfortran.Comment.isempty returns its ignore_comments argument")
    if not ok:
        r.fail("Comment.isempty", "readfortran.Comment.isempty no longer returns exactly the ignore_comments flag", m.loc(ie) if ie else None)
    init = reader_func(m, "__init__")
    r.instances += 1
    ok = False
    for n in A.body_nodes(init.node):
        if isinstance(n, ast.If) and A.text(n.test) == "process_directives":
            ok = any(isinstance(s, ast.Assign) and A.text(s.targets[0]) == "self._ignore_comments" and A.const(s.value) is False for s in n.body)
    r.ob(ok, "FortranReaderBase.__init__: process_directives forces _ignore_comments = False")
    if not ok:
        r.fail("__init__|process_directives", "process_directives no longer forces comments to be kept", m.loc(init))
    return r


# ------------------------------------------------------------------------------------------------
# ';' splitting (C04.R2, C12)
# ------------------------------------------------------------------------------------------------
def rule_semicolon(m, rid):
    r = RuleResult(rid, "';' never splits a literal: it is applied to the tokenised line, every part has the replace map undone and "
                        "label then construct name re-extracted")
    r.floor = 7
    nx = reader_func(m, "_next")
    splits = [c for c in A.calls(nx.node) if isinstance(c.func, ast.Attribute) and c.func.attr == "split" and c.args and A.const(c.args[0]) == ";"]
    if not splits:
        r.error("_next: no .split(';') found (anchor vanished)")
        return r
    # the local that holds the item under inspection, whatever it is called: bound from the queue / from get_source_item
    iv = "item"
    for n in A.body_nodes(nx.node):
        if isinstance(n, ast.Assign) and len(n.targets) == 1 and isinstance(n.targets[0], ast.Name) and isinstance(n.value, ast.Call) \
                and A.text(n.value.func) in ("self.fifo_item.popleft", "self.get_source_item"):
            iv = n.targets[0].id
    # a second accepted way to tokenise: `mapped, unmap = string_replace_map(item.line, ...)` (the map of the item's own text)
    tok_vars, unmap_vars = set(), set()
    for n in A.body_nodes(nx.node):
        if isinstance(n, ast.Assign) and isinstance(n.value, ast.Call) and A.text(n.value.func) == "string_replace_map" and n.value.args \
                and A.text(n.value.args[0]) in (iv + ".line", iv + ".get_line()") and isinstance(n.targets[0], ast.Tuple) and len(n.targets[0].elts) == 2:
            tok_vars.add(A.text(n.targets[0].elts[0]))
            unmap_vars.add(A.text(n.targets[0].elts[1]))

    local_defs = {}
    for n in A.body_nodes(nx.node):
        if isinstance(n, ast.Assign) and len(n.targets) == 1 and isinstance(n.targets[0], ast.Name):
            local_defs.setdefault(n.targets[0].id, []).append(n.value)

    def unmapped(e, depth=0):
        t = A.text(e)
        if "apply_map(" in t or (isinstance(e, ast.Call) and A.text(e.func) in unmap_vars):
            return True
        # a local that is only ever assigned unmapped text
        if isinstance(e, ast.Name) and e.id in local_defs and depth < 2:
            return all(unmapped(v, depth + 1) for v in local_defs[e.id])
        return False
    for c in splits:
        r.instances += 1
        recv = A.text(c.func.value)
        ok = recv.endswith("get_line()") or recv in tok_vars
        r.ob(ok, "_next: split operand `%s` is the tokenised line" % recv)
        if not ok:
            r.fail("_next|split-operand|%s" % recv, "_next splits `%s` at ';' rather than the tokenised line (item.get_line()): a ';' inside a "
                   "character literal or comment-like text would split the statement" % recv, m.loc(nx, c))
    # the guard deciding whether to split must look at the same tokenised text
    r.instances += 1
    guard_ok = False
    for n in A.body_nodes(nx.node):
        if isinstance(n, ast.If):
            for x in ast.walk(n.test):
                if isinstance(x, ast.Compare) and len(x.ops) == 1 and isinstance(x.ops[0], ast.In) and A.const(x.left) == ";":
                    guard_ok = A.text(x.comparators[0]).endswith("get_line()")
                    gnode = x
    r.ob(guard_ok, "_next: the `';' in ...` guard tests the tokenised line")
    if not guard_ok:
        r.fail("_next|split-guard", "_next decides whether a line contains ';' on something other than the tokenised line "
               "(item.get_line()): a ';' inside quotes or a directive triggers the split", m.loc(nx))
    # whether a line is split depends on the item alone (its class, its text, the source form) -- not on how it was obtained
    r.instances += 1
    P0 = A.parents(nx.node)
    foreign = []
    for n in A.body_nodes(nx.node):
        if isinstance(n, ast.If) and any(isinstance(x, ast.Compare) and A.const(x.left) == ";" for x in ast.walk(n.test)):
            tests, x = [n.test], n
            while x in P0 and P0[x] is not nx.node:
                p_ = P0[x]
                if isinstance(p_, ast.If) and x in p_.body:
                    tests.append(p_.test)
                x = p_
            for t in tests:
                for nm in ast.walk(t):
                    if isinstance(nm, ast.Name) and nm.id not in (iv, "self", "isinstance", "type", "len") \
                            and not m.class_of_name(nx, nm.id) and nm.id not in ("Comment", "Line", "CppDirective", "MultiLine"):
                        foreign.append(nm.id)
    r.ob(not foreign, "_next: the decision to split at ';' reads only the item, its class and the reader's format")
    if foreign:
        r.fail("_next|split-guard|history|%s" % foreign[0], "_next makes the ';' split depend on the local variable `%s`, which is not a property "
               "of the item but of how the loop got there (e.g. a flag set when an earlier item came from the buffer): a freshly read "
               "`a = 1; b = 2` line can then be delivered unsplit" % foreign[0], m.loc(nx))
    # directive items are Lines too: the guard must exclude them (a ';' is ordinary text of a '#define')
    r.instances += 1
    line_k = m.key("Line", RF)
    special = sorted(c["name"] for k, c in m.classes.items() if c["module"] == RF and k != line_k and m.issub(k, line_k)
                     and not c["name"].startswith("SyntaxError"))
    excluded = set()
    exact = False
    for n in A.body_nodes(nx.node):
        if isinstance(n, ast.If) and any(isinstance(x, ast.Compare) and A.const(x.left) == ";" for x in ast.walk(n.test)):
            conj = n.test.values if isinstance(n.test, ast.BoolOp) and isinstance(n.test.op, ast.And) else [n.test]
            for c in conj:
                if isinstance(c, ast.UnaryOp) and isinstance(c.op, ast.Not) and isinstance(c.operand, ast.Call) \
                        and A.dotted(c.operand.func) == "isinstance" and len(c.operand.args) == 2:
                    t = c.operand.args[1]
                    excluded |= {A.text(e) for e in (t.elts if isinstance(t, ast.Tuple) else [t])}
                if A.text(c) in ("type(%s) is Line" % iv, "type(%s) == Line" % iv):
                    exact = True
    missing = [k for k in special if k not in excluded] if not exact else []
    r.ob(not missing, "_next: the split guard excludes the non-statement Line classes %s" % special)
    if missing:
        r.fail("_next|splits-directive|%s" % ",".join(missing), "_next applies the ';' statement separator to %s items as well (they derive from Line "
               "and the guard does not exclude them): '#define A x; y' is delivered as a directive followed by the statement 'y'"
               % "/".join(missing), m.loc(nx))
    # an empty part (trailing ';', ';;') is skipped: Line refuses empty text by raising, and next() turns any exception into
    # end of input, so an unguarded construction drops the whole source line silently
    P_ = A.parents(nx.node)
    for c in A.calls(nx.node):
        if A.text(c.func) != "Line" and not (isinstance(c.func, ast.Attribute) and c.func.attr == "copy"):
            continue
        loop = None
        x = c
        guards = []
        while x in P_ and P_[x] is not nx.node:
            p_ = P_[x]
            if isinstance(p_, ast.If) and x in p_.body:
                guards.append(p_.test)
            if isinstance(p_, ast.For):
                loop = p_
                break
            x = p_
        if loop is None:
            continue
        r.instances += 1
        part_vars = set(A.assigned_names(loop.target))
        # the guard looks at the part with its blanks removed: `x = part.strip(); if x:` or `if part.strip():`
        stripped = set()
        for s_ in ast.walk(loop):
            if isinstance(s_, ast.Assign) and isinstance(s_.value, ast.Call) and isinstance(s_.value.func, ast.Attribute) \
                    and s_.value.func.attr == "strip" and A.text(s_.value.func.value) in part_vars | stripped and s_.lineno <= c.lineno:
                stripped |= set(A.assigned_names(s_.targets[0]))
        ok = any(isinstance(g, ast.Name) and g.id in stripped for g in guards) or \
            any(isinstance(g, ast.Call) and isinstance(g.func, ast.Attribute) and g.func.attr == "strip" and A.text(g.func.value) in part_vars for g in guards)
        r.ob(ok, "_next: a Line is built from a ';' part only under `if <stripped part>`")
        if not ok:
            r.fail("_next|empty-part", "_next builds a Line from every ';' part, including an empty or blank one (`x = 1; y = 2;`, `a = 1; ; b = 2`): Line raises on empty "
                   "text and next() reports that as end of input, so the statements of that source line are silently dropped", m.loc(nx, c))
    # every Line built from a part: apply_map + extract_label before extract_construct_name
    r.instances += 1
    order = []
    for c in A.calls(nx.node):
        t = A.text(c.func)
        if t in ("extract_label", "extract_construct_name"):
            order.append((c.lineno, c.col_offset, t))
    order.sort()
    names = [t for _, _, t in order]
    if not names:
        r.error("_next: neither extract_label nor extract_construct_name is called (the ';' splitter changed shape)")
        return r
    ok = names == ["extract_label", "extract_construct_name"]
    # data dependence: the argument of extract_construct_name is the line returned by extract_label
    if ok:
        lab = [n for n in A.body_nodes(nx.node) if isinstance(n, ast.Assign) and isinstance(n.value, ast.Call) and A.text(n.value.func) == "extract_label"]
        con = [n for n in A.body_nodes(nx.node) if isinstance(n, ast.Assign) and isinstance(n.value, ast.Call) and A.text(n.value.func) == "extract_construct_name"]
        ok = bool(lab and con) and isinstance(lab[0].targets[0], ast.Tuple) and \
            A.text(lab[0].targets[0].elts[1]) == A.text(con[0].value.args[0]) and \
            (lab[0].lineno, lab[0].col_offset) < (con[0].lineno, con[0].col_offset)
    r.ob(ok, "_next: label is extracted before the construct name, on the remainder")
    if not ok:
        r.fail("_next|label-name-order", "_next does not extract the statement label first and the construct name from what remains "
               "(a part such as `10 outer: do ...` keeps its name in the statement text)", m.loc(nx))
    r.instances += 1
    lines = [c for c in A.calls(nx.node) if A.text(c.func) == "Line"]
    copies = [c for c in A.calls(nx.node) if isinstance(c.func, ast.Attribute) and c.func.attr == "copy"]
    ok = bool(lines or copies) and all(c.args and unmapped(c.args[0]) for c in lines) and \
        all(any(k.arg == "apply_map" and A.const(k.value) is True for k in c.keywords) or
            (len(c.args) >= 2 and A.const(c.args[1]) is True) or (c.args and unmapped(c.args[0])) for c in copies)
    if ok:
        ok = all(len(c.args) >= 5 and A.text(c.args[1]).endswith(".span") and A.text(c.args[4]).endswith(".reader") for c in lines)
        if not ok:
            r.ob(False)
            r.fail("_next|span", "_next builds the Line of a ';' part without the span/reader of the original item: its line numbers are lost", m.loc(nx))
            return r
    r.ob(ok, "_next: every part goes through apply_map before a Line is built (%d Line(), %d copy())" % (len(lines), len(copies)))
    if not ok:
        r.fail("_next|apply_map", "_next builds a Line for a ';' part without undoing the replace map: placeholders of literals "
               "would reach the parser", m.loc(nx))
    # label and construct name of the LATER parts are exactly what was extracted from that part (None when it has none): a part
    # built as a copy of the whole line's item would otherwise inherit the label/name of the first statement
    r.instances += 1
    lab_var = name_var = None
    for n in A.body_nodes(nx.node):
        if isinstance(n, ast.Assign) and isinstance(n.value, ast.Call) and isinstance(n.targets[0], ast.Tuple) and len(n.targets[0].elts) == 2:
            if A.text(n.value.func) == "extract_label":
                lab_var = A.text(n.targets[0].elts[0])
            if A.text(n.value.func) == "extract_construct_name":
                name_var = A.text(n.targets[0].elts[0])
    loops = [n for n in A.body_nodes(nx.node) if isinstance(n, ast.For) and
             any(isinstance(c, ast.Call) and A.text(c.func) in ("extract_label",) for c in ast.walk(n))]
    inherit = None
    if lab_var and name_var and loops:
        lp = loops[0]
        Pl = A.parents(lp)
        for c in [c for c in ast.walk(lp) if isinstance(c, ast.Call)]:
            if A.text(c.func) == "Line" and len(c.args) >= 4:
                if A.text(c.args[2]) != lab_var or A.text(c.args[3]) != name_var:
                    inherit = (c, "is built with label `%s` / name `%s` rather than the ones extracted from the part" % (A.text(c.args[2]), A.text(c.args[3])))
            elif isinstance(c.func, ast.Attribute) and c.func.attr == "copy":
                # the object the copy is bound to
                asg = Pl.get(c)
                tgt = A.text(asg.targets[0]) if isinstance(asg, ast.Assign) else None
                blk = Pl.get(asg)
                sibs = []
                for field in ("body", "orelse"):
                    b = getattr(blk, field, None)
                    if isinstance(b, list) and asg in b:
                        sibs = b
                sets = {A.text(t): A.text(s_.value) for s_ in sibs if isinstance(s_, ast.Assign) for t in s_.targets}
                if tgt is None or sets.get("%s.label" % tgt) != lab_var or sets.get("%s.name" % tgt) != name_var:
                    inherit = (c, "is a copy of the whole line's item whose label/name are not unconditionally replaced by the ones "
                                  "extracted from the part")
    elif not (lab_var and name_var and loops):
        r.error("_next: the loop building the later ';' parts (extract_label / extract_construct_name) was not found (anchor changed)")
    r.ob(inherit is None, "_next: later ';' parts carry exactly their own label and construct name")
    if inherit is not None:
        r.fail("_next|part-label", "_next: the item of a later ';' part %s: `10 a = 1; b = 2` gives `b = 2` the label 10 (and `outer: do i=1,3; x = i` "
               "names the assignment)" % inherit[1], m.loc(nx, inherit[0]))
    return r


# ------------------------------------------------------------------------------------------------
# splitquote: quoted segments are typed String and never case-folded (C02.R1, C04, C05)
# ------------------------------------------------------------------------------------------------
def rule_splitquote(m, rid):
    r = RuleResult(rid, "splitquote marks every quoted region as String (so '!' and ';' inside it are inert) and case-folds only unquoted text")
    r.floor = 5
    f = m.need_func("fparser.common.splitline", "splitquote")
    d = defuse.deps(f.node)
    P = A.parents(f.node)
    segs = []
    for n in A.body_nodes(f.node):
        if isinstance(n, ast.Call) and isinstance(n.func, ast.Attribute) and n.func.attr == "append" and A.text(n.func.value) == "segments" and n.args:
            segs.append((n.args[0], n))
        if isinstance(n, ast.Return) and isinstance(n.value, ast.Tuple) and n.value.elts and isinstance(n.value.elts[0], ast.List):
            for e in n.value.elts[0].elts:
                segs.append((e, n))
    if len(segs) < 5:
        r.error("splitquote: only %d segment constructions found (anchor changed)" % len(segs))
    # positions of opening / closing quotes are the results of _next_quote without / with a quote_char
    start_vars, end_vars = set(), set()
    for n in A.body_nodes(f.node):
        if isinstance(n, ast.Assign) and isinstance(n.value, ast.Call) and A.text(n.value.func) == "_next_quote" and isinstance(n.targets[0], ast.Name):
            if any(k.arg == "quote_char" for k in n.value.keywords) or len(n.value.args) >= 2:
                end_vars.add(n.targets[0].id)
            else:
                start_vars.add(n.targets[0].id)
    if not start_vars or not end_vars:
        r.error("splitquote: opening/closing quote searches (_next_quote) not found")
        return r

    def in_stopchar_branch(node):
        x = node
        while x in P and P[x] is not f.node:
            p = P[x]
            if isinstance(p, ast.While):
                return False
            if isinstance(p, ast.If) and A.text(p.test) == "stopchar":
                return True
            x = p
        return False
    for x, site in segs:
        r.instances += 1
        is_string = isinstance(x, ast.Call) and A.text(x.func) == "String"
        inner = x.args[0] if is_string and x.args else x
        lowered = False
        while isinstance(inner, ast.Call) and (A.text(inner.func) == "_lower" or (isinstance(inner.func, ast.Attribute) and inner.func.attr == "lower")):
            lowered = True
            inner = inner.args[0] if inner.args else inner.func.value
        quoted = None
        if isinstance(inner, ast.Subscript) and isinstance(inner.slice, ast.Slice):
            lo, up = inner.slice.lower, inner.slice.upper
            lo_names = A.names_in(lo) if lo is not None else set()
            up_dep = set()
            if up is not None:
                for nm in A.names_in(up):
                    # the bound itself or a name computed directly from a closing-quote position (pos = end + 1); not the
                    # transitive closure, which reaches it through the loop-carried position from every bound
                    up_dep.add(nm)
                    if nm not in start_vars and set(d.get(nm, ())) & end_vars:
                        up_dep |= end_vars
            quoted = bool(lo_names & start_vars) or bool(up_dep & end_vars) or in_stopchar_branch(site)
        elif isinstance(inner, ast.Name) and inner.id == "line":
            quoted = in_stopchar_branch(site)
        if quoted is None:
            r.undet("splitquote: segment `%s` not classified" % A.text(x))
            continue
        if quoted:
            ok = is_string and not lowered
            r.ob(ok, "quoted segment `%s`" % A.text(x))
            if not ok:
                r.fail("splitquote|quoted|%s" % A.text(x)[:40], "splitquote builds the quoted region `%s` %s: %s" % (
                    A.text(x), "without marking it String" if not is_string else "case-folded",
                    "a '!' or ';' inside the literal is then treated as a comment/statement separator" if not is_string
                    else "character literals lose their spelling"), m.loc(f, site))
        else:
            ok = not is_string
            r.ob(ok, "unquoted segment `%s`" % A.text(x))
            if not ok:
                r.fail("splitquote|unquoted|%s" % A.text(x)[:40], "splitquote marks the unquoted text `%s` as String" % A.text(x), m.loc(f, site))
    return r


# ------------------------------------------------------------------------------------------------
# quoted pieces produced by splitquote are never case-folded downstream (C02.R1, C04)
# ------------------------------------------------------------------------------------------------
class FoldClient(F.Client):
    track = None

    def __init__(self, m, f, string_key, seq_vars):
        self.m = m
        self.f = f
        self.string_key = string_key
        self.seq_vars = seq_vars
        self.hits = []

    def for_value(self, loop, st):
        it = loop.iter
        src = A.text(it)
        if any(v in A.names_in(it) for v in self.seq_vars) or "splitquote(" in src:
            # an element of a splitquote result: a quoted piece (String) or plain text
            if isinstance(loop.target, ast.Name):
                return frozenset([("inst", self.string_key), ("c", "<plain text>")])
        return F.TOP

    def call_effect(self, call, st):
        fn = call.func
        if isinstance(fn, ast.Attribute) and fn.attr in ("lower", "upper", "title", "capitalize", "swapcase", "casefold") and isinstance(fn.value, ast.Name):
            v = st.get(fn.value.id)
            if any(a == ("inst", self.string_key) for a in v):
                self.hits.append(call)
        return (st,)


class FoldFlow(F.Flow):
    def stmt(self, s, states, cur_exc):
        # `for idx, item in enumerate(items[:])`: bind the second target
        if isinstance(s, ast.For) and isinstance(s.target, ast.Tuple) and len(s.target.elts) == 2 and isinstance(s.iter, ast.Call) \
                and A.dotted(s.iter.func) == "enumerate" and s.iter.args and any(v in A.names_in(s.iter.args[0]) for v in self.c.seq_vars):
            fake = ast.For(target=s.target.elts[1], iter=s.iter.args[0], body=s.body, orelse=s.orelse)
            ast.copy_location(fake, s)
            return F.Flow.stmt(self, fake, states, cur_exc)
        return F.Flow.stmt(self, s, states, cur_exc)


def rule_literal_folding(m, rid):
    r = RuleResult(rid, "wherever the pieces returned by splitquote are processed, a quoted piece (String) is never case-folded")
    r.floor = 2
    sk = m.key("String", "fparser.common.splitline")
    n = 0
    for (path, q), f in sorted(m.funcs.items()):
        if not f.module.startswith(("fparser.common.splitline", "fparser.common.readfortran")) or q == "splitquote":
            continue
        calls = [c for c in A.calls(f.node) if (A.dotted(c.func) or "").split(".")[-1] == "splitquote"]
        if not calls:
            continue
        seq_vars = set()
        for x in A.body_nodes(f.node):
            if isinstance(x, ast.Assign) and isinstance(x.value, ast.Call) and (A.dotted(x.value.func) or "").split(".")[-1] == "splitquote":
                t = x.targets[0]
                if isinstance(t, (ast.Tuple, ast.List)) and t.elts and isinstance(t.elts[0], ast.Name):
                    seq_vars.add(t.elts[0].id)
                elif isinstance(t, ast.Name):
                    seq_vars.add(t.id)
        r.instances += 1
        n += 1
        cl = FoldClient(m, f, sk, seq_vars)
        fl = FoldFlow(m, f, cl)
        try:
            fl.run(F.State({}))
        except AnalysisError as err:
            r.undet("%s: %s" % (q, err))
            continue
        r.ob(not cl.hits, "%s: pieces of splitquote %s" % (q, sorted(seq_vars) or "(iterated directly)"))
        for c in cl.hits[:2]:
            r.fail("%s|fold|%s" % (q, A.text(c)[:30]), "%s applies `%s` to a piece of a splitquote result that can be a quoted character "
                   "literal: literals written in mixed case are changed" % (q, A.text(c)[:40]), m.loc(f, c))
    if n < 2:
        r.error("fewer than 2 consumers of splitquote found")
    return r


# ------------------------------------------------------------------------------------------------
# free-form continuation joining (C12.R6): decision table of the '&' handling at the end of the
# continuation loop of get_source_item, interpreted from the AST
# ------------------------------------------------------------------------------------------------
# (physical line after comment removal, is first line of the statement) -> (text contributed, continues)
# Fortran 2003 3.3.1.3: '&' as the last nonblank character continues the statement; an '&' that is the first
# nonblank character of the next line is the optional leading marker and the text starts after it.
CONTINUATION_TABLE = [
    ("x = 1", True, "x = 1", False),
    ("x = 1 + &", True, "x = 1 + ", True),
    ("x = 1 + &   ", True, "x = 1 + ", True),
    ("x = 'a&b'", True, "x = 'a&b'", False),
    ("x = 'a&b' // &", True, "x = 'a&b' // ", True),
    ("msg = 'R' // &", True, "msg = 'R' // ", True),
    ("     2", False, "     2", False),
    ("     2 + &", False, "     2 + ", True),
    ("   & 2", False, " 2", False),
    ("& 2", False, " 2", False),
    ("&2", False, "2", False),
    ("   & 2 + &", False, " 2 + ", True),
    ("   & 'A&B'", False, " 'A&B'", False),
    ("   &p&q'", False, "p&q'", False),
    ("   & 'A&B' // &", False, " 'A&B' // ", True),
    ("   'A&B'", False, "   'A&B'", False),
    ("   'A&B' // &", False, "   'A&B' // ", True),
    ("'&' // y", False, "'&' // y", False),
    ("'&' // &", False, "'&' // ", True),
    ("a&b", False, "a&b", False),
    ("      && roll'", False, "& roll'", False),
    ("   &  &b\"", False, "  &b\"", False),
    ("   & c = 3", False, " c = 3", False),
    # a continuation line is never searched for a statement label or a construct name
    ("10 * z", False, "10 * z", False),
    ("  20 + y &", False, "  20 + y ", True),
    ("j:k)", False, "j:k)", False),
    # a blank line inside a continued statement is skipped (wherever it comes from: also directly after a comment line)
    ("", False, "", True),
    ("    ", False, "", True),
]


# conditional-compilation continuation lines (the first line of the statement had a '!$ ' sentinel): the sentinel is blanked, then
# the ordinary continuation rules apply
OMP_CONTINUATION_TABLE = [
    ("!$ & + 2", False, " + 2", False),
    ("!$& + 2", False, " + 2", False),
    ("  !$ &z", False, "z", False),
    ("!$   y + &", False, "     y + ", True),
    ("!$ & 'a&b' // &", False, " 'a&b' // ", True),
    ("   & w", False, " w", False),
    # the previous line ended inside a character literal: the sentinel is still the sentinel (it is in columns 1-2 of the physical line)
    ("!$     &def'", False, "def'", False, "'"),
    ("!$ &de' // &", False, "de' // ", True, "'"),
]


# several physical lines of one statement (the first line is given as the loop sees it: sentinel already blanked)
SEQUENCES = [
    (["x = 1 + &", "  2"], "x = 1 + 2"),
    (["x = 1 + &", "! c", "  2"], "x = 1 + 2"),
    (["x = 1 + &", "", "  2"], "x = 1 + 2"),
    (["x = 1 + &", "! c", "", "  2"], "x = 1 + 2"),
    (["x = 1 + &", "", "! c", "  & 2 + &", "! d", "", "", "  & 3"], "x = 1 + 2 + 3"),
    (["integer :: a, b, &", "   ! why", "", "   c"], "integer :: a, b, c"),
    (["x = 1"], "x = 1"),
]
OMP_SEQUENCES = [
    (["   x = 1 + &", "!$ & 2"], "x = 1 + 2"),
    (["   x = 1 + &", "!$ & 2 + &", "!$ & 3"], "x = 1 + 2 + 3"),
    (["   x = 1 + &", "! an ordinary comment", "!$ & 2"], "x = 1 + 2"),
    (["   x = 1 + &", "", "!$ & 2 + &", "! c", "", "!$ & 3"], "x = 1 + 2 + 3"),
    (["   x = 1 + &", "!$   2 + &", "!$   3"], "x = 1 + 2 + 3"),
]


def rule_continuation(m, rid, omp=False):
    from sa import pureeval as PE
    import re as _re
    if omp:
        r = RuleResult(rid, "a continuation line of a conditional-compilation statement has its '!$' sentinel blanked and is then joined like "
                            "any continuation line (decided as a table over one iteration of the free-form loop)")
        r.floor = 5
    else:
        r = RuleResult(rid, "free-form continuation joining: a trailing '&' continues, only a FIRST-nonblank '&' is the leading marker, and "
                            "exactly the text between them is contributed (so '&' inside a literal is never taken for a marker)")
        r.floor = 15
    f = reader_func(m, "get_source_item")
    # the tail of the continuation loop starts at `i = line.rfind("&")` (or whatever searches the trailing marker)
    loop = tail = None
    for n in A.body_nodes(f.node):
        if isinstance(n, ast.While):
            for idx, s in enumerate(n.body):
                if isinstance(s, ast.Assign) and isinstance(s.value, ast.Call) and isinstance(s.value.func, ast.Attribute) \
                        and s.value.func.attr in ("rfind", "find", "rindex", "index") and s.value.args and A.const(s.value.args[0]) == "&" \
                        and A.text(s.value.func.value) == "line":
                    if any(isinstance(x, ast.Call) and A.text(x.func) in ("lines_append", "lines.append") for t in n.body[idx:] for x in ast.walk(t)):
                        loop, tail = n, n.body[idx:]
    if tail is None:
        r.error("get_source_item: the '&' handling at the end of the free-form continuation loop was not found (anchor changed)")
        return r
    from rules import regex_rules as _rx
    ev = _rx.evaluator_with_funcs(m, "fparser.common.readfortran")     # extract_label / extract_construct_name are the real ones
    omp_rx = omp_fn = None
    if omp:
        sf = reader_func(m, "set_format")
        for n in A.body_nodes(sf.node):
            if isinstance(n, ast.Assign) and A.text(n.targets[0]) == "self._re_omp_sentinel_cont" and isinstance(n.value, ast.Call) \
                    and A.text(n.value.func) == "re.compile" and isinstance(A.const(n.value.args[0], None), str):
                omp_rx = _re.compile(A.const(n.value.args[0]), _re.IGNORECASE if "IGNORECASE" in A.text(n.value) else 0)
        omp_fn = m.method(m.key("FortranReaderBase", RF), "replace_omp_sentinels")
        if omp_rx is None or omp_fn is None:
            r.error("the continuation sentinel pattern (self._re_omp_sentinel_cont) or replace_omp_sentinels was not found (anchor changed)")
            return r
    bad = []
    seq_bad = []
    try:
        for row in (OMP_CONTINUATION_TABLE if omp else CONTINUATION_TABLE):
            text, first, want_text, want_cont = row[:4]
            q0 = row[4] if len(row) > 4 else None
            r.instances += 1
            lines = [] if first else ["x = 1 + "]
            n0 = len(lines)
            # one whole iteration of the free-form loop on one physical line (comment handling is the identity on these lines)
            fmt_ = PE.Obj({"is_free": True, "is_fixed": False, "is_fix": False, "is_f77": False, "is_pyf": False, "is_strict": False,
                           "f2py_enabled": False, "mode": "free"})
            me = PE.Obj({"linecount": 7, "f2py_comment_lines": [], "comment_item": lambda *a, **k: ("comment",) + a,
                         "_format": fmt_, "format": fmt_, "_include_omp_conditional_lines": bool(omp), "process_directives": False,
                         "_ignore_comments": False})
            if omp:
                me.fields["_re_omp_sentinel_cont"] = omp_rx
                me.fields["replace_omp_sentinels"] = lambda l_, rx_: ev.run_function(omp_fn.node, [l_, rx_])
            env = {"line": text, "lines": lines, "lines_append": lines.append, "get_single_line": lambda *a_, **k_: "<next>",
                   "self": me, "endlineno": 0, "startlineno": 0, "had_omp_sentinels": bool(omp), "start_index": 0, "qchar": q0,
                   "handle_inline_comment": lambda l_, n_, q_=None: (l_, q_, False), "put_item": lambda x: None,
                   "have_comment": False, "label": None, "name": None, "is_f2py_directive": False}
            cont = None
            try:
                ev.block(loop.body, env)
                cont = env.get("line") == "<next>"
            except PE._Break:
                cont = False
            except PE._Continue:
                cont = True
            got = "".join(lines[n0:])
            ok = got == want_text and cont == want_cont
            r.ob(ok, "%r (%s line) contributes %r, %s" % (text, "first" if first else "continuation", got, "continues" if cont else "ends")
                 if r.obligations % 4 == 0 else None)
            if not ok:
                bad.append((text, first, got, cont, want_text, want_cont))
        # whole statements: the loop itself is interpreted over several physical lines (state carried from line to line)
        for phys, want_stmt in (OMP_SEQUENCES if omp else SEQUENCES):
            r.instances += 1
            rest = list(phys[1:])
            lines = []
            fmt_ = PE.Obj({"is_free": True, "is_fixed": False, "is_fix": False, "is_f77": False, "is_pyf": False, "is_strict": False,
                           "f2py_enabled": False, "mode": "free"})
            me = PE.Obj({"linecount": 7, "f2py_comment_lines": [], "comment_item": lambda *a, **k: ("comment",) + a,
                         "_format": fmt_, "format": fmt_, "_include_omp_conditional_lines": bool(omp), "process_directives": False,
                         "_ignore_comments": False})
            if omp:
                me.fields["_re_omp_sentinel_cont"] = omp_rx
                me.fields["replace_omp_sentinels"] = lambda l_, rx_: ev.run_function(omp_fn.node, [l_, rx_])
            env = {"line": phys[0], "lines": lines, "lines_append": lines.append,
                   "get_single_line": lambda *a_, **k_: (rest.pop(0) if rest else None),
                   "self": me, "endlineno": 0, "startlineno": 0, "had_omp_sentinels": bool(omp), "start_index": 0, "qchar": None,
                   "handle_inline_comment": lambda l_, n_, q_=None: (l_, q_, False), "put_item": lambda x: None,
                   "have_comment": False, "label": None, "name": None, "is_f2py_directive": False}
            ev.stmt(loop, env)
            got = "".join(lines)
            ok = " ".join(got.split()) == want_stmt and not rest
            r.ob(ok, "%r -> %r" % (phys, got))
            if not ok:
                seq_bad.append((phys, got, want_stmt, list(rest)))
    except PE.Unsupported as err:
        r.error("get_source_item: cannot interpret the continuation tail statically (%s)" % err)
        return r
    except PE.PyRaise as err:
        r.error("get_source_item: the continuation tail raises %s on a table line" % err.exc_type)
        return r
    if seq_bad:
        phys, got, want_stmt, rest = seq_bad[0]
        r.fail("get_source_item|continuation|sequence", "get_source_item: the physical lines %r are joined to %r%s; they are one statement, %r "
               "(%d sequences disagree): a comment or blank line between continuation lines, or the state kept from one line to the next, "
               "cuts the statement short" % (phys, " ".join(got.split()), " leaving %r unread" % rest if rest else "", want_stmt, len(seq_bad)),
               m.loc(f, loop))
    if bad:
        text, first, got, cont, wt, wc = bad[0]
        r.fail("get_source_item|continuation|%s" % ("first" if first else "cont"),
               "get_source_item: the %s line %r contributes %r and %s; Fortran 3.3.1.3 says %r and %s (%d table rows disagree)"
               % ("first" if first else "continuation", text, got, "continues" if cont else "ends", wt, "continues" if wc else "ends", len(bad)),
               m.loc(f, tail[0]))
    return r


# ------------------------------------------------------------------------------------------------
# fparser1 give-back (C19.R7)
# ------------------------------------------------------------------------------------------------
ONE_QUEUE_TABLE = {
    "FortranParser.put_item": ({"left-push"}, "a line a statement hands back (typed FUNCTION header, PURE/ELEMENTAL prefix, "
                                              "one-line IF/WHERE body) must be the next one parsed"),
}


def rule_queue_one(m, rid):
    r = RuleResult(rid, "fparser1 gives lines back to the FRONT of the reader's queue (directly or through the reader's put_item), and nobody "
                        "else in fparser1 touches the queue")
    r.floor = 1
    seen = set()
    for (p, q), f in sorted(m.funcs.items()):
        mod = m.file_mod.get(p, "") if hasattr(m, "file_mod") else ""
        if "/one/" not in p.replace("\\", "/") and not p.endswith("common/base_classes.py"):
            continue
        if "/tests/" in p:
            continue
        for fam, c, recv in fifo_ops(m, f):
            r.instances += 1
            seen.add(q)
            ent = ONE_QUEUE_TABLE.get(q)
            if ent is None:
                r.ob(False)
                r.fail("%s|unlisted|%s" % (q, fam), "%s performs a %s on the reader's item queue; only FortranParser.put_item is confirmed "
                       "to do so in fparser1" % (q, fam), m.loc(f, c))
                continue
            ok = fam in ent[0]
            r.ob(ok, "%s: %s (`%s`) -- %s" % (q, fam, A.text(c)[:50], ent[1]))
            if not ok:
                r.fail("%s|%s" % (q, fam), "%s performs a %s on the reader's queue (`%s`): with several statements already queued (a ';' line) the "
                       "line handed back is parsed after them, so e.g. the type of `integer function f(); f = 1; end function f` "
                       "ends up after END FUNCTION" % (q, fam, A.text(c)[:50]), m.loc(f, c))
    pk = [k for k in m.classes if k.endswith(":FortranParser") and ".one." in k]
    if pk:
        pf = m.method(pk[0], "put_item")
        if pf is not None and "FortranParser.put_item" not in seen:
            # forwarding to the reader's own put_item is equally fine
            fwd = any(A.text(c.func) == "self.reader.put_item" for c in A.calls(pf.node))
            r.instances += 1
            r.ob(fwd, "FortranParser.put_item forwards to self.reader.put_item")
            if not fwd:
                r.fail("FortranParser.put_item|lost", "FortranParser.put_item neither pushes the item to the front of the reader's queue nor "
                       "forwards it to the reader's put_item: the line handed back is lost", m.loc(pf))
    else:
        r.error("fparser.one FortranParser not found (anchor vanished)")
    return r


# ------------------------------------------------------------------------------------------------
# directive line splicing (C14.R8): backslash-newline is deleted, nothing else (C99 5.1.1.2 phase 2)
# ------------------------------------------------------------------------------------------------
SPLICE_TABLE = [
    (["#define A 1"], "#define A 1"),
    (["#define LONG_NA\\", "ME 1"], "#define LONG_NAME 1"),
    (["#define A \\", "  1"], "#define A   1"),
    (["#if defined(X) && \\", "    defined(Y)"], "#if defined(X) &&     defined(Y)"),
    (["#define F(x) \\", "  ((x) + \\", "   1)"], "#define F(x)   ((x) +    1)"),
    (["#include \"a\\", "b.h\""], "#include \"ab.h\""),
]


def rule_directive_splice(m, rid):
    from sa import pureeval as PE
    r = RuleResult(rid, "a backslash-continued directive is spliced by deleting backslash-newline only: no character is added or removed at "
                        "the joints, so the directive text in the tree is the text the preprocessor sees")
    r.floor = 5
    f = reader_func(m, "get_source_item")
    block = None
    for n in A.body_nodes(f.node):
        if isinstance(n, ast.If):
            for s in n.body:
                if isinstance(s, ast.While) and any(isinstance(c, ast.Call) and isinstance(c.func, ast.Attribute) and c.func.attr == "endswith"
                                                    and c.args and A.const(c.args[0]) == "\\" for c in ast.walk(s.test)):
                    block = n.body
    if block is None:
        r.error("get_source_item: the backslash-continuation loop of directive lines was not found (anchor changed)")
        return r
    ev = PE.Evaluator({})
    bad = []
    try:
        for phys, want in SPLICE_TABLE:
            r.instances += 1
            rest = list(phys[1:])
            me = PE.Obj({"linecount": 3, "cpp_directive_item": lambda text, a=None, b=None: text})
            env = {"line": phys[0], "get_single_line": lambda: rest.pop(0), "self": me, "startlineno": 3}
            got = None
            try:
                ev.block(block, env)
            except PE._Return as ret:
                got = ret.value
            ok = got == want and not rest
            r.ob(ok, "%r -> %r" % (phys, got))
            if not ok:
                bad.append((phys, got, want))
    except PE.Unsupported as err:
        r.error("get_source_item: cannot interpret the directive splicing statically (%s)" % err)
        return r
    except (PE.PyRaise, IndexError) as err:
        r.error("get_source_item: the directive splicing raises on a table line (%s)" % err)
        return r
    if bad:
        phys, got, want = bad[0]
        r.fail("get_source_item|directive-splice", "get_source_item: the physical lines %r are spliced to %r; deleting backslash-newline gives %r "
               "(%d table rows disagree)" % (phys, got, want, len(bad)), m.loc(f, block[0]))
    return r


# ------------------------------------------------------------------------------------------------
# handle_inline_comment as a decision table (C11.R10 / C04.R9 / C12.R8 / C02.R14)
# ------------------------------------------------------------------------------------------------
# (line, quote state on entry) -> (code kept, quote state on exit, comment texts queued)
INLINE_TABLE = [
    ("x = 1", None, "x = 1", None, []),
    ("x = 1 ! c", None, "x = 1 ", None, ["! c"]),
    ("! whole line", None, "", None, ["! whole line"]),
    ("   ! indented", None, "   ", None, ["! indented"]),
    ("x = 'a!b'", None, "x = 'a!b'", None, []),
    ("x = 'a!b' ! c", None, "x = 'a!b' ", None, ["! c"]),
    ("x = \"a!b\" ! c 'q", None, "x = \"a!b\" ", None, ["! c 'q"]),
    ("x = 'it''s' ! c", None, "x = 'it''s' ", None, ["! c"]),
    ("x = 'a' // 'b!' ! c", None, "x = 'a' // 'b!' ", None, ["! c"]),
    ("x = 'a' // \"it's ! not\" ! c", None, "x = 'a' // \"it's ! not\" ", None, ["! c"]),
    ("x = \"say 'hi!'\" ! c", None, "x = \"say 'hi!'\" ", None, ["! c"]),
    ("x = 'open ! not a comment", None, "x = 'open ! not a comment", "'", []),
    ("still ! inside' ! c", "'", "still ! inside' ", None, ["! c"]),
    ("still ! inside", "'", "still ! inside", "'", []),
    ("y = 1 ! it's", None, "y = 1 ", None, ["! it's"]),
    ("y = 1 !! double", None, "y = 1 ", None, ["!! double"]),
    ("y = '!' ; z = \"!\" ! c", None, "y = '!' ; z = \"!\" ", None, ["! c"]),
    ("x = \"it's\" // 'a!b'", None, "x = \"it's\" // 'a!b'", None, []),
    ("x = 'say \"hi' // \"a!b\" ! c", None, "x = 'say \"hi' // \"a!b\" ", None, ["! c"]),
    ("x = \"it's\" // 'a!b' ! it's", None, "x = \"it's\" // 'a!b' ", None, ["! it's"]),
]


def rule_inline_table(m, rid):
    from sa import pureeval as PE
    from rules import regex_rules as RR
    r = RuleResult(rid, "handle_inline_comment decided as a table: a '!' starts a comment exactly when it is outside every character literal "
                        "(doubled quotes, the other quote kind, a literal continued from the previous line), the code before it is kept "
                        "unchanged and the comment text is queued unchanged")
    r.floor = 12
    f = reader_func(m, "handle_inline_comment")

    class String(str):
        pass
    ev = RR.evaluator_with_funcs(m, "fparser.common.splitline")
    ev.g["String"] = String
    ev.g.update(PE.module_regexes(m, RF))
    bad = []
    try:
        for line, q_in, want_code, want_q, want_comments in INLINE_TABLE:
            r.instances += 1
            queued = []
            fmt = PE.Obj({"is_f77": False, "f2py_enabled": False, "is_fixed": False})
            me = PE.Obj({"fifo_item": PE.Obj({"append": queued.append}), "format": fmt, "_format": fmt, "f2py_comment_lines": [],
                         "comment_item": lambda text, a=None, b=None, inline_comment=False: ("comment", text, inline_comment)})
            me.fields["handle_inline_comment"] = lambda l_, n_, q_=None, b_=True: ev.run_function(f.node, [me, l_, n_, q_, b_])
            try:
                got = ev.run_function(f.node, [me, line, 7, q_in])
            except PE.PyRaise as err:
                got = ("raises", err.exc_type, None)
            comments = [c[1] for c in queued]
            ok = isinstance(got, tuple) and len(got) == 3 and got[0] == want_code and got[1] == want_q and comments == want_comments \
                and bool(got[2]) == bool(want_comments)
            r.ob(ok, "%r [%s] -> %r, comments %r" % (line, q_in, got[:2] if isinstance(got, tuple) else got, comments) if r.instances % 3 == 0 else None)
            if not ok:
                bad.append((line, q_in, got, comments, want_code, want_q, want_comments))
    except PE.Unsupported as err:
        r.error("handle_inline_comment cannot be interpreted statically (%s)" % err)
        return r
    if bad:
        line, q_in, got, comments, wc, wq, wcm = bad[0]
        r.fail("handle_inline_comment|table|%s" % line[:20], "handle_inline_comment(%r, quote state %r) keeps %r with quote state %r and queues %r; "
               "expected %r, %r and %r (%d table rows disagree): a '!' inside a literal is taken for a comment, or a comment for literal text"
               % (line, q_in, got[0] if isinstance(got, tuple) else got, got[1] if isinstance(got, tuple) else None, comments, wc, wq, wcm, len(bad)),
               m.loc(f))
    return r


# ------------------------------------------------------------------------------------------------
# fixed-form continuation joining (C05.R9): one iteration of the F90-style fixed-form continuation loop
# ------------------------------------------------------------------------------------------------
# physical continuation/comment line -> (text contributed to the statement, comment queued)
FIXED_CONT_TABLE = [
    ("     &  + 2", "  + 2", None),
    ("     1 'abc'", " 'abc'", None),
    ("     $call foo(a)", "call foo(a)", None),
    ("     +      b", "      b", None),
    ("c a comment", None, "c a comment"),
    ("* starred", None, "* starred"),
    ("! bang", None, "! bang"),
    ("", None, ""),
    # inside a character literal that is continued over the lines: a comment or blank line between them does not end the literal
    ("c a comment", None, "c a comment", "'", "'"),
    ("", None, "", '"', '"'),
    ("     &rest of it'", "rest of it'", None, "'", "'"),
]


def rule_fixed_continuation(m, rid):
    from sa import pureeval as PE
    from rules import regex_rules as RR
    r = RuleResult(rid, "fixed-form continuation joining (decided as a table over one iteration of the loop): a continuation line contributes "
                        "exactly its columns 7 onwards, a comment line inside a continued statement is queued as a comment and contributes "
                        "nothing")
    r.floor = 6
    f = reader_func(m, "get_source_item")
    loop = None
    for n in A.body_nodes(f.node):
        if isinstance(n, ast.While) and "_is_fix_cont" in A.text(n.test) and "_is_fix_comment" in A.text(n.test):
            loop = n
    if loop is None:
        r.error("get_source_item: the fixed-form continuation loop (`while _is_fix_cont(next_line) or _is_fix_comment(...)`) was not found")
        return r
    ev = RR.evaluator_with_funcs(m, RF)
    bad = []
    try:
        for entry in FIXED_CONT_TABLE:
            row, want_text, want_comment = entry[:3]
            qc_in = entry[3] if len(entry) > 3 else None
            want_qc = entry[4] if len(entry) > 4 else None
            r.instances += 1
            lines = ["      x = 1"]
            queued = []
            fmt = PE.Obj({"is_strict": False, "f2py_enabled": False, "is_fixed": True, "is_f77": False})
            me = PE.Obj({"linecount": 9, "_format": fmt, "format": fmt, "fifo_item": PE.Obj({"append": queued.append}),
                         "comment_item": lambda text, a=None, b=None, inline_comment=False: ("comment", text),
                         "handle_inline_comment": lambda l_, n_, q_=None, b_=True: (l_, q_, False),
                         "get_next_line": lambda *a, **k: None, "format_message": lambda *a, **k: "", "warning": lambda *a, **k: None,
                         "info": lambda *a, **k: None, "error": lambda *a, **k: None})
            env = {"self": me, "lines": lines, "get_single_line": lambda: row, "isstrict": False, "qc": qc_in, "have_comment": False,
                   "endlineno": 0, "handle_inline_comment": lambda l_, n_, q_=None, b_=True: (l_, q_, False), "startlineno": 8,
                   "next_line": row}
            try:
                ev.block(loop.body, env)
            except (PE._Break, PE._Continue):
                pass
            got_text = "".join(lines[1:]) if len(lines) > 1 else None
            got_comment = queued[0][1] if queued else None
            ok = got_text == want_text and got_comment == want_comment and (len(entry) <= 3 or env.get("qc") == want_qc)
            if len(entry) > 3 and env.get("qc") != want_qc:
                got_comment = "%r; open-literal state %r -> %r" % (got_comment, qc_in, env.get("qc"))
                want_comment = "%r; open-literal state %r -> %r" % (want_comment, qc_in, want_qc)
            r.ob(ok, "%r -> text %r, comment %r" % (row, got_text, got_comment))
            if not ok:
                bad.append((row, got_text, got_comment, want_text, want_comment))
    except PE.Unsupported as err:
        r.error("get_source_item: cannot interpret the fixed-form continuation loop statically (%s)" % err)
        return r
    except PE.PyRaise as err:
        r.error("get_source_item: the fixed-form continuation loop raises %s on a table line" % err.exc_type)
        return r
    if bad:
        row, gt, gc, wt, wc = bad[0]
        r.fail("get_source_item|fixed-continuation|%s" % row[:12], "get_source_item: the fixed-form line %r inside a continued statement contributes %r "
               "and queues the comment %r; expected %r and %r (%d table rows disagree)" % (row, gt, gc, wt, wc, len(bad)), m.loc(f, loop))
    return r


def rule_nested_reader_option(m, rid, option, what):
    """The reader that FortranReaderBase.next creates for a resolved INCLUDE file is given `option` of the including reader."""
    r = RuleResult(rid, "the reader created for an included file is given the including reader's `%s`: %s" % (option, what))
    r.floor = 1
    nx = reader_func(m, "next")
    ctor = [c for c in A.calls(nx.node) if A.text(c.func) == "FortranFileReader"]
    r.instances += 1
    if len(ctor) != 1:
        r.error("FortranReaderBase.next: %d constructions of the nested FortranFileReader (anchor changed)" % len(ctor))
        return r
    kw = {k.arg: A.text(k.value) for k in ctor[0].keywords}
    val = kw.get(option)
    ok = val is not None and option.strip("_") in val and val.startswith("self.")
    r.ob(ok, "next: FortranFileReader(..., %s=%s)" % (option, val))
    if not ok:
        r.fail("next|nested-option|%s" % option, "FortranReaderBase.next creates the reader of an included file %s: %s"
               % ("with %s=%s" % (option, val) if val is not None else "without passing %s" % option, what), m.loc(nx, ctor[0]))
    return r


# ------------------------------------------------------------------------------------------------
# string_replace_map as a table: unmap(map(line)) == line, and what stays visible holds no delimiter of a hidden piece
REPLACE_MAP_ROWS = [
    "c = a((x+1)) + b(x+1)",
    "s = \"'ab c'\" // 'ab c'",
    "x = f(1.0e-3, '1.0e-3') + 1.0e-3",
    "call s(a(i,j), 'it''s', (b))",
    "x = f(a, b) + f(a, b) + g(f(a, b))",
    "t = 'x+1' // g(x+1) // \"x+1\"",
    "y = 2.5D+4 * f('2.5D+4') - 2.5d+4",
    "z = a(1)(2:3) // b((/1, 2/))",
    "w = f(a1, (a2), ((a3)), 'a4', \"a5\", a6(1), a7(2,3), a8(4:5), a9(x+y), a10(x-y), a11(x*y), a12(x/y))",
    "print *, 'a(b', \"c)d\", (e), ')'",
    "v = 'F2PY_EXPR_TUPLE_1' // f(p+q)",
    "u = ''",
    "r = tol('1.0e-3') + 1.0e-3",
    "q = x - 2.5D+4 * f('2.5D+4')",
    "p = 1.0e-3 + 1.0e-3 * 1.0E-3",
]


def replace_map_table_rule(m, rid):
    from sa import pureeval as PE
    from rules import regex_rules
    SL = "fparser.common.splitline"
    r = RuleResult(rid, "string_replace_map and its inverse, interpreted on %d lines: undoing the map gives back the line character for "
                        "character (pieces that differ only by their delimiters or repeat each other included), and no comma, quote or "
                        "parenthesis of a hidden piece stays visible" % len(REPLACE_MAP_ROWS))
    r.floor = len(REPLACE_MAP_ROWS)
    f = m.module_func(SL, "string_replace_map")
    k = m.key("StringReplaceDict", SL)
    callf = m.method(k, "__call__") if k else None
    if f is None or callf is None:
        r.error("string_replace_map / StringReplaceDict.__call__ vanished")
        return r
    ev = regex_rules.evaluator_with_funcs(m, SL)

    class String(str):
        pass

    class ParenString(str):
        pass

    from sa import pureeval as _PE
    SRD = _PE.host_subclass(ev, m.classdef(k), dict, "SRD") if m.classdef(k) is not None else None
    if SRD is None:
        r.error("StringReplaceDict: the class body was not found")
        return r
    ev.g.update({"String": String, "ParenString": ParenString, "StringReplaceDict": SRD})
    for line in REPLACE_MAP_ROWS:
        r.instances += 1
        try:
            mapped, mp = ev.run_function(f.node, [line])
            back = mp(mapped)
        except PE.Unsupported as err:
            r.undet("%r: %s" % (line, err))
            continue
        except PE.PyRaise as err:
            r.ob(False)
            r.fail("string_replace_map|raises|%s" % line, "string_replace_map(%r) raises %s" % (line, err.exc_type), m.loc(f))
            continue
        ok = back == line
        # what is visible: between a pair of parentheses / quotes only a placeholder or a plain name remains
        import re as _re
        leak = [g_ for g_ in _re.findall(r"\(([^()]*)\)", mapped) if _re.search(r"[,'\"()]", g_)]
        # a real literal with a signed exponent must not stay visible: its sign would be taken for an operator
        leak += _re.findall(r"(?<![\w.])(?:\d+[.]?\d*|[.]\d+)[edED][+-]\d+", mapped)
        ok = ok and not leak
        r.ob(ok, "%r -> %r" % (line, mapped) if r.obligations % 4 == 0 else None)
        if not ok:
            r.fail("string_replace_map|table|%s" % line, "string_replace_map(%r) gives %r, which its inverse turns into %r%s: text is "
                   "invented, lost or left exposed" % (line, mapped, back, "; visible group content %r" % leak[0] if leak else ""), m.loc(f))
    return r


def rule_item_ctor_agreement(m, rid):
    """Sibling agreement: the reader builds its items through four helpers; state one of the statement-bearing helpers records on the reader
    (`self.flag = ...`) must be recorded by its siblings too, or consumers of that state see directive / multi-line items as 'no code yet'."""
    r = RuleResult(rid, "the reader's item constructors (line_item, multiline_item, cpp_directive_item; comment_item apart) agree on what they "
                        "record on the reader: a flag set for one kind of statement-bearing item and not for another makes the parser treat "
                        "a source that starts with the other kind as empty (the caller then never makes progress)")
    r.floor = 3
    helpers = {}
    for nm in ("line_item", "multiline_item", "cpp_directive_item", "comment_item"):
        f = m.funcs.get((m.modfile[RF], "FortranReaderBase." + nm))
        if f is None:
            r.error("FortranReaderBase.%s vanished" % nm)
            return r
        helpers[nm] = (f, {t.attr for n in A.body_nodes(f.node) if isinstance(n, (ast.Assign, ast.AugAssign))
                           for t in (n.targets if isinstance(n, ast.Assign) else [n.target])
                           if isinstance(t, ast.Attribute) and isinstance(t.value, ast.Name) and t.value.id == "self"})
    code = ("line_item", "multiline_item", "cpp_directive_item")
    union = set().union(*(helpers[n][1] for n in code))
    for nm in code:
        r.instances += 1
        missing = sorted(union - helpers[nm][1])
        r.ob(not missing, "%s records %s" % (nm, sorted(helpers[nm][1]) or "nothing"))
        if missing:
            who = [n for n in code if missing[0] in helpers[n][1]][0]
            r.fail("%s|ctor-state|%s" % (nm, missing[0]), "FortranReaderBase.%s records self.%s on the reader but its sibling %s does not: code that "
                   "reads the flag (e.g. 'only comments so far, nothing to match') takes a source whose first statement-bearing item is "
                   "built by %s for an empty one" % (who, missing[0], nm, nm), m.loc(helpers[nm][0]))
    return r
