"""C16 -- symbol tables mirror the scoping structure and drive intrinsic resolution (structural clauses)."""
import ast

from sa import astutil as A
from sa import flow as F
from sa import tables
from sa.model import AnalysisError
from sa.report import RuleResult
from rules import common_block as cb

F03 = "fparser.two.Fortran2003"
ST = "fparser.two.symbol_table"
SCOPING = {"Program_Stmt": "main program (R1101)", "Module_Stmt": "module (R1104)", "Submodule_Stmt": "submodule (F2008 R1116)",
           "Subroutine_Stmt": "subroutine subprogram (R1231)", "Function_Stmt": "function subprogram (R1223)",
           "Block_Stmt": "BLOCK construct (F2008 R807)"}


def r1_scoping_set(m, ctx, blocks):
    r = RuleResult("C16.R1", "the classes that open a scoping region are exactly program, module, submodule, subroutine, function and BLOCK statements")
    r.floor = 6
    have = {}
    for k, c in m.classes.items():
        if k != ctx.scoping and m.issub(k, ctx.scoping):
            have.setdefault(c["name"], []).append(k)
    for name in sorted(set(have) | set(SCOPING)):
        r.instances += 1
        if name not in have:
            r.ob(False)
            r.fail("missing|%s" % name, "%s (%s) does not mix in ScopingRegionMixin: no symbol table is created for that scoping unit, so "
                   "its declarations land in the enclosing table" % (name, SCOPING[name]), None)
        elif name not in SCOPING:
            r.ob(False)
            r.fail("extra|%s" % name, "%s mixes in ScopingRegionMixin but is not a scoping unit of the property (a table would be created for it)" % name, None)
        else:
            ok = all(m.has_attr(k, "get_scope_name") and (m.method_owner(k, "get_scope_name") != ctx.scoping or m.has_attr(k, "get_name")) for k in have[name])
            r.ob(ok, "%s: %s; get_scope_name resolves" % (name, SCOPING[name]))
            if not ok:
                r.fail("noname|%s" % name, "%s is a scoping class but get_scope_name()/get_name() cannot be resolved on it" % name, None)
    # every scoping class is the start class of some block-engine instance (else its table is never entered)
    starts = set()
    for inst in blocks:
        s = inst.args.get("startcls") if inst.args else None
        if s is not None and s.kind == "class":
            starts |= {k.split(":")[1] for k in m.closure_all(s.v)}
    for name in SCOPING:
        r.instances += 1
        ok = name in starts
        r.ob(ok, "%s opens a block-engine instance" % name)
        if not ok:
            r.fail("unused|%s" % name, "%s is never the opening statement of a block-engine call site: its scope would never be entered" % name, None)
    return r



def _same_node_guard(func, loop, var):
    """the loop `for <var> in <children>` keeps an element (break) only under a test with the conjuncts `<var>.node is <p>` and
    `<p> is not None`, p a parameter of the function: the table re-entered is the one made for the same start-statement object
    (a region read again after backtracking), never the table of another unit of the same name"""
    if not isinstance(loop, ast.For):
        return False
    params = set(A.param_names(func)[1:])
    exits = [n for n in ast.walk(loop) if isinstance(n, ast.If) and any(isinstance(b, ast.Break) for b in n.body)]
    if len(exits) != 1 or any(isinstance(n, ast.Break) for s_ in loop.body if not isinstance(s_, ast.If) for n in ast.walk(s_)):
        return False
    test = exits[0].test
    conj = test.values if isinstance(test, ast.BoolOp) and isinstance(test.op, ast.And) else [test]
    same, notnone = None, set()
    for c in conj:
        if isinstance(c, ast.Compare) and len(c.ops) == 1 and isinstance(c.ops[0], ast.Is):
            a, b = c.left, c.comparators[0]
            for x, y in ((a, b), (b, a)):
                if isinstance(x, ast.Attribute) and isinstance(x.value, ast.Name) and x.value.id == var and x.attr in ("node", "_node") \
                        and isinstance(y, ast.Name) and y.id in params:
                    same = y.id
        if isinstance(c, ast.Compare) and len(c.ops) == 1 and isinstance(c.ops[0], ast.IsNot) and isinstance(c.left, ast.Name) \
                and A.const(c.comparators[0], 1) is None:
            notnone.add(c.left.id)
    return same is not None and same in notnone


def r3_lookup(m):
    r = RuleResult("C16.R3", "symbol lookup consults the scope itself, its used modules, then only its ancestors; a new scope is nested under the current one")
    r.floor = 3
    k = m.key("SymbolTable", ST)
    f = m.method(k, "lookup")
    r.instances += 1
    if f is None:
        r.error("SymbolTable.lookup vanished")
        return r
    order = []
    for n in ast.walk(f.node):
        if isinstance(n, ast.Attribute) and n.attr in ("_data_symbols", "_modules", "parent", "_parent", "_children", "children", "root"):
            order.append((n.lineno, n.col_offset, n.attr))
    order.sort()
    seq = []
    for _, _, a in order:
        if not seq or seq[-1] != a:
            seq.append(a)
    bad = [a for a in seq if a in ("_children", "children", "root")]
    want_prefix = ["_data_symbols"]
    ok = not bad and seq[:1] == ["_data_symbols"] and "parent" in seq and seq.index("_data_symbols") < (seq.index("_modules") if "_modules" in seq else 99) < seq.index("parent")
    rec = any(isinstance(c, ast.Call) and A.text(c.func) in ("self.parent.lookup", "self._parent.lookup") for c in A.calls(f.node))
    r.ob(ok and rec, "SymbolTable.lookup consults %s and recurses on self.parent" % seq)
    if not (ok and rec):
        if bad:
            r.fail("lookup|children", "SymbolTable.lookup consults %s: a declaration in an inner or sibling scope would shadow an intrinsic" % bad, m.loc(f))
        else:
            r.fail("lookup|order", "SymbolTable.lookup no longer consults own symbols, then used modules, then the parent chain (order found: %s)" % seq, m.loc(f))
    # enter_scope
    ks = m.key("SymbolTables", ST)
    es = m.method(ks, "enter_scope")
    r.instances += 1
    txt = " ".join(A.text(s) for s in es.node.body[1:]) if es else ""
    # (the local holding the new table is found by what is done with it: it becomes the current scope)
    tv = "table"
    if es is not None:
        for n_ in A.body_nodes(es.node):
            if isinstance(n_, ast.Assign) and any(A.text(t) == "self._current_scope" for t in n_.targets) and isinstance(n_.value, ast.Name):
                tv = n_.value.id
    ok = es is not None and "parent=self._current_scope" in txt.replace(" ", "") \
        and "self._current_scope.add_child(%s)" % tv in txt and "self._current_scope = %s" % tv in txt
    r.ob(ok, "SymbolTables.enter_scope nests the new table under the current scope and makes it current")
    if not ok:
        r.fail("enter_scope", "SymbolTables.enter_scope no longer creates the new table with parent=current scope, registers it as a child and makes it current", m.loc(es) if es else None)
    # every scoping unit gets a table of its own: what becomes the current scope is always freshly constructed in this call
    if es is not None:
        r.instances += 1
        cur_defs = [n for n in A.body_nodes(es.node) if isinstance(n, ast.Assign) and any(A.text(t) == "self._current_scope" for t in n.targets)]
        stale = None
        for cd in cur_defs:
            v = cd.value
            srcs = [v]
            if isinstance(v, ast.Name):
                srcs = [n.value for n in A.body_nodes(es.node) if isinstance(n, ast.Assign) and any(A.text(t) == v.id for t in n.targets)]
                loops = [n for n in A.body_nodes(es.node) if isinstance(n, (ast.For, ast.comprehension)) and v.id in A.assigned_names(n.target)]
                if loops and not _same_node_guard(es.node, loops[0], v.id):
                    stale = (cd, "`%s` can be an element of `%s`" % (v.id, A.text(loops[0].iter)[:40]))
                if loops and stale is None:
                    # the element is kept only when it is the table of this very start statement; otherwise the loop's else branch
                    # (or the code behind it) constructs the table: the construction is what remains to be checked
                    srcs = [sv_ for sv_ in srcs if isinstance(sv_, ast.Call)]
            for sv in srcs:
                fresh = isinstance(sv, ast.Call) and (A.text(sv.func) in ("SymbolTable", "self.add") or A.text(sv.func).endswith(".add"))
                if not fresh and isinstance(sv, ast.Call) and A.text(sv.func) == "self.lookup":
                    # re-entering an existing TOP-LEVEL table is the documented behaviour, but only outside any scope
                    from rules import delim_rules as D
                    Pe = A.parents(es.node)
                    facts = []
                    for t_, pol_ in D.facts_at(es.node, sv, Pe):
                        facts += D.expand(t_, pol_)
                    fresh = any(A.text(t_) == "self._current_scope" and not pol_ for t_, pol_ in facts) or \
                        any(A.text(t_) in ("self._current_scope is None",) and pol_ for t_, pol_ in facts)
                    if not fresh and stale is None:
                        stale = (cd, "a top-level table found with `%s` is re-entered even while inside another scope" % A.text(sv)[:40])
                if not fresh and stale is None:
                    stale = (cd, "`%s` is not a newly constructed table" % A.text(sv)[:40])
        r.ob(stale is None and bool(cur_defs), "SymbolTables.enter_scope: the scope entered is always a table constructed in this call")
        if stale is not None:
            r.fail("enter_scope|reuses-table", "SymbolTables.enter_scope can make an existing table the current scope (%s): two scoping units with "
                   "the same name under one parent (an interface body and the separate module procedure it describes, a BLOCK and an "
                   "internal procedure) then share one table, and the declarations of one shadow intrinsics in the other" % stale[1],
                   m.loc(es, stale[0]))
    xs = m.method(ks, "exit_scope")
    r.instances += 1
    ok = xs is not None and any(isinstance(n, ast.Assign) and A.text(n.targets[0]) == "self._current_scope" and A.text(n.value) == "self._current_scope.parent"
                                for n in A.body_nodes(xs.node))
    r.ob(ok, "SymbolTables.exit_scope returns to the parent scope")
    if not ok:
        r.fail("exit_scope", "SymbolTables.exit_scope no longer makes the parent of the current scope current", m.loc(xs) if xs else None)
    return r


class IntrinsicClient(F.Client):
    track = {"$looked", "$found", "result", "table"}

    def __init__(self, fnode=None):
        # the locals by what is bound to them: the scope (`= SYMBOL_TABLES.current_scope`) and the engine's result (`= CallBase.match(...)`)
        self.tables = {"table", "SYMBOL_TABLES.current_scope"}
        self.result = "result"
        self.track = set(type(self).track)
        if fnode is not None:
            for n in A.body_nodes(fnode):
                if isinstance(n, ast.Assign) and len(n.targets) == 1 and isinstance(n.targets[0], ast.Name):
                    if A.text(n.value) == "SYMBOL_TABLES.current_scope":
                        self.tables.add(n.targets[0].id)
                        self.track.add(n.targets[0].id)
                    if isinstance(n.value, ast.Call) and A.text(n.value.func).endswith("CallBase.match"):
                        self.result = n.targets[0].id
                        self.track.add(n.targets[0].id)

    def call_raises(self, call, st):
        if isinstance(call.func, ast.Attribute) and call.func.attr == "lookup" and A.text(call.func.value) in self.tables:
            miss = st.set("$looked", F.TRUE).set("$found", F.FALSE)
            return (("KeyError", miss), ("AttributeError", miss))
        return ()

    def call_effect(self, call, st):
        if isinstance(call.func, ast.Attribute) and call.func.attr == "lookup" and A.text(call.func.value) in self.tables:
            return (st.set("$looked", F.TRUE).set("$found", F.TRUE),)
        return (st,)

    def call_value(self, call, st):
        if A.text(call.func).endswith("CallBase.match"):
            return frozenset([("c", None), ("truthy",)])
        return F.TOP


def r4_intrinsic(m):
    r = RuleResult("C16.R4", "an intrinsic function reference is produced only after the current scope chain was searched for a shadowing "
                             "declaration, and never when one was found")
    r.floor = 1
    seen = set()
    for std in ("f2003", "f2008"):
        k = m.std_class(std, "Intrinsic_Function_Reference")
        if k is None:
            r.error("Intrinsic_Function_Reference missing in %s" % std)
            continue
        f = m.method(k, "match")
        if f is None or id(f) in seen:
            continue
        seen.add(id(f))
        r.instances += 1
        icl = IntrinsicClient(f.node)
        fl = F.Flow(m, f, icl)
        out = fl.run(F.State({"$looked": F.FALSE, "$found": F.FALSE}))
        bad = None
        n = 0
        for st, node in out.ret:
            if node is None or node.value is None or (isinstance(node.value, ast.Constant) and node.value.value is None):
                continue
            if isinstance(node.value, ast.Name) and st.get(node.value.id) == F.NONE:
                continue
            n += 1
            if st.get("$looked") != F.TRUE:
                bad = (node, "without having looked the name up in the current scope")
            elif st.get("$found") == F.TRUE:
                bad = (node, "although a declaration of that name was found in scope")
        uses_current = any(isinstance(x, ast.Attribute) and A.text(x) == "SYMBOL_TABLES.current_scope" for x in A.body_nodes(f.node))
        if not uses_current:
            bad = (f.node, "without consulting SYMBOL_TABLES.current_scope at all")
        # the name looked up is the name written in the source, not a name taken from the intrinsic tables
        for c in A.calls(f.node):
            if isinstance(c.func, ast.Attribute) and c.func.attr == "lookup" and A.text(c.func.value) in icl.tables and c.args:
                arg = c.args[0]
                defs = [n.value for n in A.body_nodes(f.node) if isinstance(n, ast.Assign) and isinstance(arg, ast.Name)
                        and any(isinstance(t, ast.Name) and t.id == arg.id for t in n.targets)] if isinstance(arg, ast.Name) else [arg]
                for dv in defs:
                    if any(isinstance(x, ast.Subscript) and "function_names" in A.text(x.value) for x in ast.walk(dv)) or icl.result not in A.names_in(dv):
                        bad = (c, "after looking up `%s` (= `%s`), which is not the name written in the source" % (A.text(arg), A.text(dv)[:50]))
        r.ob(bad is None and n > 0, "%s: %d matching return states, all after an unsuccessful scope lookup" % (f.qualname, n))
        if n == 0 and bad is None:
            r.error("%s: no matching return state reached" % f.qualname)
        if bad:
            r.fail("%s|%s" % (f.qualname, bad[1][:30]), "%s can return a match %s: a user entity named like an intrinsic is represented as an "
                   "intrinsic call (or vice versa)" % (f.qualname, bad[1]), m.loc(f, bad[0]))
    return r


class AddedClient(F.Client):
    track = {"$added", "result", "table"}

    def __init__(self, names):
        self.names = names

    def call_effect(self, call, st):
        t = A.text(call.func)
        if t.split(".")[-1] in self.names:
            return (st.set("$added", F.TRUE),)
        return (st,)

    def call_value(self, call, st):
        if A.text(call.func).endswith(".match") or A.text(call.func).endswith("._match"):
            return frozenset([("c", None), ("truthy",)])
        return F.TOP


def r5_recorded(m):
    r = RuleResult("C16.R5", "declarations and USE statements are recorded in the current scope's table on every matching path")
    r.floor = 3
    seen = set()
    for std in ("f2003", "f2008"):
        k = m.std_class(std, "Type_Declaration_Stmt")
        f = m.method(k, "match") if k else None
        if f is None:
            r.error("Type_Declaration_Stmt.match missing in %s" % std)
            continue
        if id(f) in seen:
            continue
        seen.add(id(f))
        r.instances += 1
        fl = F.Flow(m, f, AddedClient({"add_to_symbol_table"}))
        out = fl.run(F.State({"$added": F.FALSE}))
        bad = None
        n = 0
        for st, node in out.ret:
            if node is None or node.value is None:
                continue
            if isinstance(node.value, ast.Name) and st.get(node.value.id) == F.NONE:
                continue
            if isinstance(node.value, ast.Constant) and node.value.value is None:
                continue
            n += 1
            if st.get("$added") != F.TRUE:
                bad = node
        r.ob(bad is None and n > 0, "%s: %d matching return states, all after add_to_symbol_table" % (f.qualname, n))
        if bad is not None:
            r.fail("%s|not-added" % f.qualname, "%s can return a matched declaration without passing it to add_to_symbol_table: the declared "
                   "names are missing from the scope's table and no longer shadow intrinsics" % f.qualname, m.loc(f, bad))
    # add_to_symbol_table: current scope, intrinsic types, every Entity_Decl
    k = m.key("Type_Declaration_Stmt", F03)
    a = m.method(k, "add_to_symbol_table")
    r.instances += 1
    if a is None:
        r.error("Type_Declaration_Stmt.add_to_symbol_table vanished")
    else:
        txt = " ".join(A.text(s) for s in A.strip_docstring(a.node.body))
        ok = "SYMBOL_TABLES.current_scope" in txt and "walk(result, Entity_Decl)" in txt and ".add_data_symbol(" in txt
        loop = [n for n in A.body_nodes(a.node) if isinstance(n, ast.For)]
        ok = ok and len(loop) == 1 and any(isinstance(c, ast.Call) and A.text(c.func).endswith("add_data_symbol") for c in ast.walk(loop[0]))
        r.ob(ok, "add_to_symbol_table adds every Entity_Decl of the declaration to SYMBOL_TABLES.current_scope")
        if not ok:
            r.fail("add_to_symbol_table", "add_to_symbol_table no longer adds every declared entity to the table of the current scope", m.loc(a))
    u = m.method(m.key("Use_Stmt", F03), "match")
    r.instances += 1
    if u is None:
        r.error("Use_Stmt.match vanished")
    else:
        fl = F.Flow(m, u, AddedClient({"add_use_symbols"}))
        out = fl.run(F.State({"$added": F.FALSE}))
        bad = None
        n = 0
        for st, node in out.ret:
            if node is None or node.value is None or not isinstance(node.value, ast.Name):
                continue
            rv = st.get(node.value.id)
            tv = st.get("table")
            t_res, f_res = F.Flow.truth_vals(rv)
            t_tab, f_tab = F.Flow.truth_vals(tv)
            if rv in (F.NONE, F.FALSY) or tv in (F.NONE, F.FALSY):
                continue
            if t_res and t_tab and not f_tab and not f_res:
                n += 1
                if st.get("$added") != F.TRUE:
                    bad = node
        uses_current = any(A.text(x) == "SYMBOL_TABLES.current_scope" for x in A.body_nodes(u.node) if isinstance(x, ast.Attribute))
        r.ob(bad is None and uses_current, "Use_Stmt.match: with a match and a current scope, add_use_symbols is reached (%d states)" % n)
        if bad is not None or not uses_current:
            r.fail("Use_Stmt.match|not-added", "Use_Stmt.match can return a matched USE statement, with a current scope present, without recording "
                   "the used module in that scope's table", m.loc(u, bad) if bad is not None else m.loc(u))
    return r


def r8_intrinsic_tables(m):
    r = RuleResult("C16.R8", "the list of names the intrinsic matcher recognises and the tables its arity check indexes agree, per standard")
    r.floor = 2
    for std in ("f2003", "f2008"):
        k = m.std_class(std, "Intrinsic_Name")
        if k is None:
            r.error("Intrinsic_Name missing in %s" % std)
            continue
        def attr(name):
            for kk in m.classes[k]["mro"]:
                ent = m.classes[kk]["own"].get(name)
                if ent is not None:
                    return ent
            return None
        fn, gen, spec = attr("function_names"), attr("generic_function_names"), attr("specific_function_names")
        if fn is None or gen is None or spec is None or "value" not in fn or "entries" not in gen or "entries" not in spec:
            r.error("%s Intrinsic_Name: function_names / generic_function_names / specific_function_names are not plain tables" % std)
            continue
        r.instances += 1
        names, g, sp = set(fn["value"]), gen["entries"], spec["entries"]
        where = m.class_loc(k) if hasattr(m, "class_loc") else None
        missing = sorted((set(g) | set(sp)) - names)
        extra = sorted(names - (set(g) | set(sp)))
        r.ob(not missing and not extra, "%s: %d names = %d generic + %d specific" % (std, len(names), len(g), len(sp)))
        if missing:
            r.fail("%s|Intrinsic_Name|unrecognised" % std, "%s: %s are intrinsic functions of the tables but not in Intrinsic_Name.function_names: a "
                   "reference to them is never an Intrinsic_Function_Reference" % (std, missing[:6]), where)
        if extra:
            r.fail("%s|Intrinsic_Name|untabled" % std, "%s: %s are matched as intrinsic names but have no entry in the generic/specific tables "
                   "(KeyError in the arity check)" % (std, extra[:6]), where)
        bad_spec = sorted(a for a, b in sp.items() if b not in g)
        r.ob(not bad_spec)
        if bad_spec:
            r.fail("%s|Intrinsic_Name|specific-target" % std, "%s: specific names %s map to a generic name that has no arity entry" % (std, bad_spec[:6]), where)
        bad_arity = sorted(a for a, b in g.items() if not (isinstance(b, dict) and isinstance(b.get("min"), int) and b["min"] >= 0
                                                           and (b.get("max") is None or (isinstance(b.get("max"), int) and b["max"] >= b["min"]))))
        r.ob(not bad_arity)
        if bad_arity:
            r.fail("%s|Intrinsic_Name|arity" % std, "%s: arity entries of %s are not {min: n>=0, max: None or >=min}" % (std, bad_arity[:6]), where)
        lower = sorted(a for a in names if a != a.upper())
        r.ob(not lower)
        if lower:
            r.fail("%s|Intrinsic_Name|case" % std, "%s: %s are not upper case; the matcher compares the upper-cased text" % (std, lower[:6]), where)
    return r


def run(m, tier):
    ctx = cb.get_ctx(m)
    blocks = tables.engine_instances(m, "BlockBase")
    from rules import C09
    r2 = C09.r1_scope_pairing(m, blocks)
    r2.rule = "C16.R2"
    r2.title = "scopes are entered and left in pairs around each scoping construct on every path (shared with C09.R1)"
    for f in r2.findings:
        f.rule = "C16.R2"
    r8 = C09.r8_table_keys(m)
    r8.rule = "C16.R6"
    for f in r8.findings:
        f.rule = "C16.R6"
    r9 = C09.r2_factory_resets(m)
    r9.rule = "C16.R7"
    r9.title = "creating a parser clears the symbol tables of earlier parses on every returning path (shared with C09.R2)"
    for f in r9.findings:
        f.rule = "C16.R7"
    results = [r1_scoping_set(m, ctx, blocks), r2, r3_lookup(m), r4_intrinsic(m), r5_recorded(m), r8, r9, r8_intrinsic_tables(m)]
    from rules import order_rules
    results.append(order_rules.recording_loops_rule(m, "C16.R9"))
    from rules import symtab_interp
    results.append(symtab_interp.run_rule(m, "C16.R10", tier))
    from rules import prog_rules
    results.append(prog_rules.symtab_rule(m, "C16.R11", tier))
    expl = ("Decides structural clauses of C16: the set of scoping classes equals the property's list and each opens a block-engine "
            "call site; scope enter/exit pairing on every path (typestate, shared with C09); lookup consults own symbols, used modules "
            "and ancestors only, and a new scope is nested under the current one; an intrinsic reference is produced only after an "
            "unsuccessful lookup in the current scope chain (path-sensitive over both standards' matchers); every matched declaration "
            "is passed to add_to_symbol_table and every matched USE with a current scope to add_use_symbols; table keys are "
            "case-normalised; the intrinsic name list equals the union of the generic and specific tables in each standard. Does NOT decide table contents for every program nor cache interactions during backtracking.")
    return results, expl
