"""Guarded-use exhaustiveness: a piece of the input text that a matcher uses only when a test on its *content* succeeds must, when the
test fails, either be empty or make the matcher fail -- otherwise non-empty text (a stray ')' ...) is silently dropped and the
statement accepted."""
import ast

from sa import astutil as A
from sa import defuse
from sa.report import RuleResult

TEXT_MAKERS = {"strip", "lstrip", "rstrip", "upper", "lower", "replace", "group", "join"}


def content_test(t, P):
    for x in ast.walk(t):
        if isinstance(x, ast.Compare) and any(isinstance(y, ast.Name) and y.id == P for y in ast.walk(x.left)) \
                and A.text(x.left) != "len(%s)" % P and not isinstance(x.ops[0], (ast.Is, ast.IsNot)):
            return True
        if isinstance(x, ast.Call) and isinstance(x.func, ast.Attribute) and A.text(x.func.value) == P \
                and x.func.attr in ("startswith", "endswith", "isdigit", "isalpha", "isalnum"):
            return True
    return False


def is_text_def(v):
    """the right-hand side gives text (a slice or a strip/replace/... of something), not an index or a count"""
    if isinstance(v, ast.Subscript) and isinstance(v.slice, ast.Slice):
        return True
    if isinstance(v, ast.Call) and isinstance(v.func, ast.Attribute) and v.func.attr in TEXT_MAKERS:
        return True
    if isinstance(v, ast.Call) and isinstance(v.func, ast.Name) and v.func.id in ("repmap",):
        return True
    return False


def guarded_use_rule(m, rid):
    from rules import C06
    from rules import common_block as cb
    ctx = cb.get_ctx(m)
    r = RuleResult(rid, "a piece of input text used only under a test of its content is not dropped when that test fails (the matcher then "
                        "fails, or the piece is known to be empty)")
    r.floor = 10
    matches, inp = C06.input_params(m, ctx)
    for fid, f in sorted(matches.items(), key=lambda x: x[1].qualname):
        if not inp[fid]:
            continue
        d = defuse.deps(f.node)
        derived = set(inp[fid])
        grew = True
        while grew:
            grew = False
            for name, srcs in d.items():
                if name not in derived and srcs & derived:
                    derived.add(name)
                    grew = True
        params = set(A.param_names(f.node))
        text_locals = set()
        for n in A.body_nodes(f.node):
            if isinstance(n, ast.Assign) and is_text_def(n.value):
                for t in n.targets:
                    text_locals |= set(A.assigned_names(t))
        cand = (derived & text_locals) - params
        if not cand:
            continue
        P_ = A.parents(f.node)
        for node in A.body_nodes(f.node):
            if not (isinstance(node, ast.If) and not node.orelse):
                continue
            if node.body and isinstance(node.body[-1], (ast.Return, ast.Raise, ast.Continue, ast.Break)):
                continue
            for P in sorted({x.id for x in ast.walk(node.test) if isinstance(x, ast.Name)} & cand):
                if not content_test(node.test, P):
                    continue
                if not any(isinstance(x, ast.Name) and x.id == P and isinstance(x.ctx, ast.Load) for s_ in node.body for x in ast.walk(s_)):
                    continue
                r.instances += 1
                end = max(getattr(x, "end_lineno", 0) or 0 for x in ast.walk(node))
                later_use = any(isinstance(x, ast.Name) and x.id == P and x.lineno > end for x in A.body_nodes(f.node))
                x, inloop = node, False
                while x in P_:
                    x = P_[x]
                    if isinstance(x, (ast.For, ast.While)):
                        inloop = True
                later_match = [x for x in A.body_nodes(f.node) if isinstance(x, ast.Return) and x.lineno > end and x.value is not None
                               and not (isinstance(x.value, ast.Constant) and x.value.value is None)]
                ok = later_use or inloop or not later_match
                r.ob(ok, "%s: `%s` used under `%s`" % (f.qualname, P, A.text(node.test)[:40]))
                if not ok:
                    r.fail("%s|dropped-when-test-fails|%s" % (f.qualname, P), "%s uses the piece `%s` of the statement text only when `%s` holds and "
                           "goes on to report a match (`%s`) without it otherwise: non-empty text for which the test fails (a stray ')' ...) is "
                           "silently dropped and the statement accepted" % (f.qualname, P, A.text(node.test)[:50],
                                                                            A.text(later_match[0])[:50]), m.loc(f, node))
    return r


# =================================================================================================
# a matcher indexes its own text parameter only after an emptiness test (list engines hand empty entries on)
# =================================================================================================
INDEX_EXCEPTIONS = {
    "Format_Item.match|stripped": "(the local bound to the stripped text parameter: `my_string` as the tree stands) it is the stripped text itself, or its tail from the first character that skip_digits() found "
                                   "to be neither digit nor blank (2003); the tail after '*' of stripped text longer than one character (2008)",
    "Char_Selector.match": "constructed only by WORDClsBase.match for the non-empty remainder after CHARACTER (C01.R9 table)",
    "Length_Selector.match": "alternative of Char_Selector only: receives the same non-empty text",
    "Data_Edit_Desc.match": "constructed only by Format_Item.match from text it has indexed itself",
}


def nonempty_fact(t, pol, T):
    if isinstance(t, ast.UnaryOp) and isinstance(t.op, ast.Not):
        return nonempty_fact(t.operand, not pol, T)
    if isinstance(t, ast.BoolOp):
        parts = [nonempty_fact(v, pol, T) for v in t.values]
        conj = (isinstance(t.op, ast.And) and pol) or (isinstance(t.op, ast.Or) and not pol)
        return any(parts) if conj else all(parts)
    if A.text(t) == T:
        return pol
    if isinstance(t, ast.Call) and isinstance(t.func, ast.Attribute) and A.text(t.func.value) == T \
            and t.func.attr in ("startswith", "endswith") and pol and t.args and A.const(t.args[0]) not in (None, ""):
        return True
    if isinstance(t, ast.Compare) and len(t.ops) == 1:
        l_ = A.text(t.left)
        op = t.ops[0]
        if l_ in ("%s[0]" % T, "%s[-1]" % T, "%s[:1]" % T) and \
                ((isinstance(op, (ast.Eq, ast.In)) and pol) or (isinstance(op, (ast.NotEq, ast.NotIn)) and not pol)):
            return True
        if l_ == "len(%s)" % T:
            c = A.const(t.comparators[0], None)
            if isinstance(c, int):
                if pol and ((isinstance(op, ast.Gt) and c >= 0) or (isinstance(op, ast.GtE) and c >= 1) or (isinstance(op, ast.Eq) and c >= 1)):
                    return True
                if not pol and ((isinstance(op, ast.Lt) and c >= 1) or (isinstance(op, ast.LtE) and c >= 0) or (isinstance(op, ast.Eq) and c == 0)):
                    return True
        if isinstance(op, ast.In) and pol and A.text(t.comparators[0]) == T and A.const(t.left) not in (None, ""):
            return True
    return False


def param_index_rule(m, rid, exceptions=None):
    from rules import delim_rules as D
    r = RuleResult(rid, "a matcher indexes its text parameter or a piece cut from it (`string[0]`, `line[-1]`) only on paths that established "
                        "the text is not empty (the list engine passes empty entries on; a piece after a keyword may be empty)")
    r.floor = 70
    exceptions = INDEX_EXCEPTIONS if exceptions is None else exceptions
    used = set()
    for (path, q), f in sorted(m.funcs.items()):
        if "/tests/" in path or "/two/" not in path or not q.endswith(".match"):
            continue
        params = set(A.param_names(f.node))
        # text-valued locals: assigned from a slice / strip / repmap of text, never from a split (a list)
        texts = set()
        for n in A.body_nodes(f.node):
            if isinstance(n, ast.Assign) and is_text_def(n.value):
                texts |= {t.id for t in n.targets if isinstance(t, ast.Name)}
        for n in A.body_nodes(f.node):
            if isinstance(n, ast.Assign) and isinstance(n.value, ast.Call) and isinstance(n.value.func, ast.Attribute) \
                    and n.value.func.attr in ("split", "rsplit", "findall", "groups"):
                texts -= {t.id for t in n.targets if isinstance(t, ast.Name)}
        subjects = params | texts
        P = None
        bad = None
        for n in A.body_nodes(f.node):
            if not (isinstance(n, ast.Subscript) and isinstance(n.ctx, ast.Load) and isinstance(n.value, ast.Name) and n.value.id in subjects
                    and not isinstance(n.slice, ast.Slice)):
                continue
            k = A.const(n.slice, None)
            if isinstance(n.slice, ast.UnaryOp):
                k = -1
            if not isinstance(k, int):
                continue
            if P is None:
                P = A.parents(f.node)
            r.instances += 1
            T = n.value.id
            proven = any(nonempty_fact(t, pol, T) for t, pol in D.facts_at(f.node, n, P))
            # an exception names the role of a local, not its spelling: "stripped" = bound to `<parameter>.strip()` in this function
            role = T
            stripped = set()
            assigns_ = [x for x in A.body_nodes(f.node) if isinstance(x, ast.Assign) and len(x.targets) == 1 and isinstance(x.targets[0], ast.Name)]
            for x in assigns_:
                if isinstance(x.value, ast.Call) and isinstance(x.value.func, ast.Attribute) and x.value.func.attr == "strip" \
                        and isinstance(x.value.func.value, ast.Name) and x.value.func.value.id in params:
                    stripped.add(x.targets[0].id)
            for _ in range(3):          # aliases and tails of it: `my = stripped`, `my = stripped[i:].lstrip()`
                for x in assigns_:
                    if A.names_in(x.value) & stripped and not (A.names_in(x.value) & params):
                        stripped.add(x.targets[0].id)
            if T in stripped:
                role = "stripped"
            ek = q if q in exceptions else "%s|%s" % (q, role)
            if not proven and ek in exceptions:
                used.add(ek)
                r.ob(True, "%s: `%s` -- %s" % (q, A.text(n), exceptions[ek]))
                continue
            r.ob(proven, "%s: `%s` after an emptiness test" % (q, A.text(n)) if r.instances % 4 == 0 else None)
            if not proven and bad is None:
                bad = n
        if bad is not None:
            r.fail("%s|index-on-empty|%s" % (q, A.text(bad)), "%s evaluates `%s` without having established that `%s` is not empty: when that text is empty "
                   "(an empty list entry as in `(/ 1, /)`, nothing after a keyword as in `format(e)`) this is an IndexError that escapes "
                   "the parser" % (q, A.text(bad), bad.value.id), m.loc(f, bad))
    stale = sorted(set(exceptions) - used)
    if stale:
        r.notes.append("exceptions no longer needed: %s" % stale)
    return r


# =================================================================================================
# the text after a delimiter found with find()/index() starts right behind the delimiter
# =================================================================================================
def delimiter_offset_rule(m, rid):
    r = RuleResult(rid, "where text is cut behind a delimiter located with find()/rfind()/index(), the cut starts exactly len(delimiter) "
                        "characters after the position found (no character skipped, none of the delimiter kept)")
    r.floor = 80
    for (path, q), f in sorted(m.funcs.items()):
        if "/tests/" in path or "/fparser/" not in path:
            continue
        finds = {}
        for n in A.body_nodes(f.node):
            if isinstance(n, ast.Assign) and len(n.targets) == 1 and isinstance(n.targets[0], ast.Name) and isinstance(n.value, ast.Call) \
                    and isinstance(n.value.func, ast.Attribute) and n.value.func.attr in ("find", "rfind", "index", "rindex") \
                    and n.value.args and isinstance(A.const(n.value.args[0]), str):
                finds.setdefault(n.targets[0].id, []).append((A.text(n.value.func.value), A.const(n.value.args[0]), n))
        if not finds:
            continue
        for n in A.body_nodes(f.node):
            if not (isinstance(n, ast.Subscript) and isinstance(n.slice, ast.Slice) and n.slice.lower is not None):
                continue
            lo = n.slice.lower
            if not (isinstance(lo, ast.BinOp) and isinstance(lo.op, ast.Add) and isinstance(lo.left, ast.Name) and lo.left.id in finds
                    and isinstance(A.const(lo.right, None), int)):
                continue
            k = A.const(lo.right)
            defs = [d for d in finds[lo.left.id] if d[2].lineno <= n.lineno]
            if not defs:
                continue
            base, lit, dn = max(defs, key=lambda d: d[2].lineno)
            if base != A.text(n.value):
                continue
            r.instances += 1
            ok = k == len(lit)
            r.ob(ok, "%s: `%s` behind %r" % (q, A.text(n), lit) if r.instances % 10 == 0 else None)
            if not ok:
                r.fail("%s|offset|%s|%d" % (q, lit, k), "%s cuts `%s` where `%s` is the position of %r (%d characters): %s" % (
                    q, A.text(n), lo.left.id, lit, len(lit),
                    "the first %d character(s) after the delimiter are dropped from the statement (`=>ab` gives `b`)" % (k - len(lit)) if k > len(lit)
                    else "part of the delimiter stays in the text"), m.loc(f, n))
    return r


# =================================================================================================
# keyword prefixes: `x[:n].upper() == "KEYWORD"` compares exactly len(KEYWORD) characters and the text continues at n
# =================================================================================================
def keyword_prefix_rule(m, rid):
    r = RuleResult(rid, "a keyword prefix test `x[:n] == KEYWORD` compares exactly len(KEYWORD) characters and the remaining text is cut at the "
                        "same n (no character of the statement skipped, none of the keyword left in)")
    r.floor = 60
    for (path, q), f in sorted(m.funcs.items()):
        if "/tests/" in path or "/fparser/" not in path:
            continue
        nodes = list(A.body_nodes(f.node))
        for n in nodes:
            if not (isinstance(n, ast.Compare) and len(n.ops) == 1 and isinstance(n.ops[0], (ast.Eq, ast.NotEq))):
                continue
            lit = A.const(n.comparators[0], None)
            x = n.left
            if isinstance(x, ast.Call) and isinstance(x.func, ast.Attribute) and x.func.attr in ("upper", "lower") and not x.args:
                x = x.func.value
            if not (isinstance(lit, str) and lit and isinstance(x, ast.Subscript) and isinstance(x.slice, ast.Slice) and x.slice.lower is None
                    and x.slice.step is None and isinstance(A.const(x.slice.upper, None), int) and A.const(x.slice.upper) > 0):
                continue
            k = A.const(x.slice.upper)
            base = A.text(x.value)
            r.instances += 1
            ok = k == len(lit)
            why = None
            if not ok:
                why = "`%s` compares %d characters with the %d-character literal %r: it can never be equal" % (A.text(n)[:40], k, len(lit), lit)
            else:
                # the first later cut `base[j:]` (before base is re-bound) continues at k
                pos = (n.lineno, n.col_offset)
                rebinds = [s for s in nodes if isinstance(s, ast.Assign) and any(A.text(t) == base for t in s.targets) and (s.lineno, s.col_offset) > pos]
                limit = min([(s.lineno, s.col_offset) for s in rebinds], default=(10 ** 9, 0))
                cuts = [s for s in nodes if isinstance(s, ast.Subscript) and isinstance(s.slice, ast.Slice) and s.slice.upper is None
                        and s.slice.step is None and isinstance(A.const(s.slice.lower, None), int) and A.text(s.value) == base
                        and pos < (s.lineno, s.col_offset) and (s.lineno, s.col_offset) <= (limit[0], 10 ** 9)]
                if cuts:
                    s0 = min(cuts, key=lambda s: (s.lineno, s.col_offset))
                    # another keyword test on the same base in between means the cut belongs to that one
                    between = [c2 for c2 in nodes if isinstance(c2, ast.Compare) and c2 is not n and pos < (c2.lineno, c2.col_offset) < (s0.lineno, s0.col_offset)
                               and base in A.text(c2.left) and "[:" in A.text(c2.left)]
                    if not between and A.const(s0.slice.lower) != k:
                        ok = False
                        why = "after `%s` the text continues at `%s`: %s" % (
                            A.text(n)[:40], A.text(s0), "%d character(s) of the statement are skipped" % (A.const(s0.slice.lower) - k)
                            if A.const(s0.slice.lower) > k else "the end of the keyword stays in the text")
            r.ob(ok, "%s: `%s`" % (q, A.text(n)[:50]) if r.instances % 10 == 0 else None)
            if not ok:
                r.fail("%s|keyword-prefix|%s" % (q, lit), "%s: %s" % (q, why), m.loc(f, n))
    return r


# =================================================================================================
# asserts on the text being matched: AssertionError is not a syntax error
# =================================================================================================
def assert_on_input_rule(m, rid):
    from rules import C06
    from rules import common_block as cb
    from rules import delim_rules as D
    ctx = cb.get_ctx(m)
    r = RuleResult(rid, "no matcher asserts a condition that depends on the text being matched unless the tests before it already imply the "
                        "condition (an AssertionError is not converted into a syntax error)")
    r.floor = 1
    matches, inp = C06.input_params(m, ctx)
    for fid, f in sorted(matches.items(), key=lambda x: x[1].qualname):
        asserts = [n for n in A.body_nodes(f.node) if isinstance(n, ast.Assert)]
        if not asserts or not inp[fid]:
            continue
        d = defuse.deps(f.node)
        derived = set(inp[fid])
        grew = True
        while grew:
            grew = False
            for name, srcs in d.items():
                if name not in derived and srcs & derived:
                    derived.add(name)
                    grew = True
        P = A.parents(f.node)
        for a in asserts:
            names = {x.id for x in ast.walk(a.test) if isinstance(x, ast.Name)}
            if not (names & derived):
                continue
            if isinstance(a.test, ast.Call) and A.dotted(a.test.func) == "isinstance":
                continue        # a type guard on the argument, not a condition on its text
            r.instances += 1
            facts = []
            for t, pol in D.facts_at(f.node, a, P):
                facts += D.expand(t, pol)
            implied = False
            t = a.test
            for ft, fp in facts:
                if A.text(ft) == A.text(t) and fp:
                    implied = True
                # `assert x == ""` after `elif x: return`
                if isinstance(t, ast.Compare) and len(t.ops) == 1 and isinstance(t.ops[0], ast.Eq) and A.const(t.comparators[0], 1) == "" \
                        and A.text(ft) == A.text(t.left) and not fp:
                    implied = True
                # negated comparison facts: `if j == -1: return` before `assert j != -1`
                if isinstance(t, ast.Compare) and isinstance(ft, ast.Compare) and len(t.ops) == 1 and len(ft.ops) == 1 \
                        and A.text(t.left) == A.text(ft.left) and A.text(t.comparators[0]) == A.text(ft.comparators[0]):
                    opp = {ast.Eq: ast.NotEq, ast.NotEq: ast.Eq, ast.Is: ast.IsNot, ast.IsNot: ast.Is}
                    if not fp and opp.get(type(ft.ops[0])) is type(t.ops[0]):
                        implied = True
            r.ob(implied, "%s: `assert %s` implied by the tests before it" % (f.qualname, A.text(t)[:40]))
            if not implied:
                r.fail("%s|assert-on-input|%s" % (f.qualname, A.text(t)[:40]), "%s asserts `%s`, which depends on the text being matched and is not "
                       "implied by the tests before it: for other text the AssertionError escapes the parser instead of a syntax error"
                       % (f.qualname, A.text(t)[:60]), m.loc(f, a))
    return r


# =================================================================================================
# a type switch over the children of a list node covers every class the grammar can put there
# =================================================================================================
def type_switch_rule(m, rid):
    r = RuleResult(rid, "an isinstance chain over the children of a list node whose else-branch raises covers every class the grammar can "
                        "produce for an element (alternatives are not Python subclasses of the rule class)")
    r.floor = 1
    base = m.key("Base", "fparser.two.utils")
    for (path, q), f in sorted(m.funcs.items()):
        if "/tests/" in path or "/two/" not in path:
            continue
        P = None
        for n in A.body_nodes(f.node):
            if not isinstance(n, ast.If):
                continue
            tests, cur = [], n
            while True:
                tests.append(cur.test)
                if len(cur.orelse) == 1 and isinstance(cur.orelse[0], ast.If):
                    cur = cur.orelse[0]
                else:
                    els = cur.orelse
                    break
            if len(tests) < 2 or not all(isinstance(t, ast.Call) and A.dotted(t.func) == "isinstance" and len(t.args) == 2 for t in tests) \
                    or not els or not any(isinstance(s, ast.Raise) for s in els):
                continue
            if P is None:
                P = A.parents(f.node)
            if isinstance(P.get(n), ast.If) and n in P[n].orelse:
                continue        # an inner link of a chain already handled from its head
            subject = A.text(tests[0].args[0])
            if not all(A.text(t.args[0]) == subject for t in tests):
                continue
            # the loop that binds the subject and the list class of its container
            x, loop = n, None
            while x in P:
                x = P[x]
                if isinstance(x, ast.For) and subject in A.assigned_names(x.target):
                    loop = x
                    break
            if loop is None or not (isinstance(loop.iter, ast.Attribute) and loop.iter.attr in ("children", "items")):
                continue
            cont = A.text(loop.iter.value)
            lcls = None
            from rules import delim_rules as D
            for t, pol in D.facts_at(f.node, loop, P):
                for lit, lp in D.expand(t, pol):
                    if lp and isinstance(lit, ast.Call) and A.dotted(lit.func) == "isinstance" and A.text(lit.args[0]) == cont \
                            and isinstance(lit.args[1], ast.Name) and lit.args[1].id.endswith("_List"):
                        lcls = lit.args[1].id
            r.instances += 1
            if lcls is None:
                r.error("%s: the list class of `%s` could not be determined for the type switch on `%s`" % (q, cont, subject))
                continue
            elem = lcls[:-5]
            tested = []
            for t in tests:
                a = t.args[1]
                for e in (a.elts if isinstance(a, ast.Tuple) else [a]):
                    k = m.class_of_name(f, A.text(e))
                    if k:
                        tested.append(k)
            missing = {}
            for std in ("f2003", "f2008"):
                ek = m.std_class(std, elem)
                if ek is None:
                    continue
                for k in m.closure(std, ek):
                    c = m.classes.get(k)
                    if c is None or not m.issub(k, base):
                        continue
                    builds = m.method(k, "match") is not None or m.is_generated_method(k, "match")
                    if builds and not any(m.issub(k, t) for t in tested):
                        missing.setdefault(c["name"], std)
            r.ob(not missing, "%s: type switch on elements of %s covers %d tested classes" % (q, lcls, len(tested)))
            if missing:
                r.fail("%s|type-switch|%s" % (q, ",".join(sorted(missing))), "%s: the isinstance chain over the elements of %s ends in a raise but does not "
                       "cover %s, which the grammar can produce for <%s> (it is an alternative, not a Python subclass, of a tested class): valid "
                       "input of that form escapes as the raised internal error" % (q, lcls, sorted(missing), elem), m.loc(f, n))
    return r


# =================================================================================================
# int() of text that a regex matched: every string the regex can match converts (after the normalisation applied)
# =================================================================================================
def int_operand_rule(m, rid):
    import itertools
    import re
    from sa import pureeval as PE
    r = RuleResult(rid, "int() is applied to regex-matched text only after a normalisation under which every string the pattern can match "
                        "converts (a pattern that admits blanks needs them removed)")
    r.floor = 2
    undecided = []
    for (path, q), f in sorted(m.funcs.items()):
        if "/tests/" in path or "/two/" not in path:
            continue
        for c in A.calls(f.node):
            if not (isinstance(c.func, ast.Name) and c.func.id == "int" and len(c.args) == 1):
                continue
            # trace the operand back to `<match>.group(0)` of re.search/match(<Class>.<pattern attr>, ...)
            expr = c.args[0]
            chain = []
            seen = 0
            pat = None
            while seen < 6:
                seen += 1
                if isinstance(expr, ast.Name):
                    defs = [n for n in A.body_nodes(f.node) if isinstance(n, ast.Assign) and any(A.text(t) == expr.id for t in n.targets)
                            and n.lineno <= c.lineno]
                    if not defs:
                        break
                    d = max(defs, key=lambda n: n.lineno)
                    chain.append((expr.id, d.value))
                    expr = d.value
                    continue
                if isinstance(expr, ast.Call) and isinstance(expr.func, ast.Attribute) and expr.func.attr in ("replace", "strip", "lstrip", "rstrip"):
                    expr = expr.func.value
                    continue
                if isinstance(expr, ast.Subscript):
                    expr = expr.value
                    continue
                if isinstance(expr, ast.Call) and isinstance(expr.func, ast.Attribute) and expr.func.attr == "group":
                    mv = expr.func.value
                    if isinstance(mv, ast.Name):
                        mdefs = [n for n in A.body_nodes(f.node) if isinstance(n, ast.Assign) and any(A.text(t) == mv.id for t in n.targets)]
                        for md in mdefs:
                            if isinstance(md.value, ast.Call) and A.dotted(md.value.func) in ("re.search", "re.match") and md.value.args:
                                parg = md.value.args[0]
                                pv = A.const(parg, None)
                                if pv is None and isinstance(parg, ast.Name):
                                    pd = [n for n in A.body_nodes(f.node) if isinstance(n, ast.Assign) and any(A.text(t) == parg.id for t in n.targets)]
                                    if pd:
                                        parg = pd[0].value
                                if pv is None and isinstance(parg, ast.Attribute) and isinstance(parg.value, ast.Name):
                                    ck = m.class_of_name(f, parg.value.id)
                                    ent = m.classes.get(ck, {}).get("own", {}).get(parg.attr) if ck else None
                                    pv = ent.get("value") if ent else None
                                pat = pv
                    break
                break
            if not isinstance(pat, str):
                undecided.append("%s:`%s`" % (q, A.text(c)[:30]))
                continue
            r.instances += 1
            # strings of the pattern's own alphabet up to length 4 that it matches completely
            alphabet = sorted({ch for ch in "0123456789 hHxX+-._"})
            rx = re.compile(pat)
            ev = PE.Evaluator({})
            bad = None
            n_words = 0
            for k in range(1, 5):
                for w in itertools.product("12 0hH", repeat=k):
                    w = "".join(w)
                    mo = rx.search(w)
                    if not mo or mo.group(0) != w:
                        continue
                    n_words += 1
                    # re-run the operand expression with the innermost match text substituted
                    env = {}
                    val = w
                    try:
                        for name, vexpr in reversed(chain):
                            class T(ast.NodeTransformer):
                                def visit_Call(self, node):
                                    if isinstance(node.func, ast.Attribute) and node.func.attr == "group":
                                        return ast.copy_location(ast.Constant(value=w), node)
                                    return self.generic_visit(node)
                            import copy as _copy
                            env[name] = ev.ev(T().visit(_copy.deepcopy(vexpr)), dict(env))
                        arg = ev.ev(c.args[0], dict(env)) if chain else w
                        int(arg)
                    except ValueError:
                        bad = (w, arg)
                        break
                    except (PE.Unsupported, PE.PyRaise) as err:
                        bad = None
                        undecided.append("%s:`%s` (%s)" % (q, A.text(c)[:30], err))
                        break
                if bad:
                    break
            r.ob(bad is None, "%s: int(%s) over %d strings matched by %r" % (q, A.text(c.args[0])[:30], n_words, pat))
            if bad:
                r.fail("%s|int|%s" % (q, A.text(c.args[0])[:30]), "%s converts `%s` with int(), but the pattern %r it was matched with also matches %r, "
                       "for which the operand is %r: ValueError escapes the parser" % (q, A.text(c.args[0])[:40], pat, bad[0], bad[1]), m.loc(f, c))
    if undecided:
        r.notes.append("int() operands not traced to a regex literal (not decided): %s" % undecided)
    return r


# =================================================================================================
# regex match objects are dereferenced only after a None test
# =================================================================================================
def match_object_rule(m, rid):
    from rules import delim_rules as D
    from rules import optional_rules as O
    r = RuleResult(rid, "the result of a regex match()/search() on the text being parsed is dereferenced (.group/.start/.end) only on paths "
                        "that established it is not None")
    r.floor = 35
    for (path, q), f in sorted(m.funcs.items()):
        if "/tests/" in path or "/fparser/" not in path or "/one/" in path or "/scripts/" in path:
            continue
        mvars = {}
        for n in A.body_nodes(f.node):
            if isinstance(n, ast.Assign) and len(n.targets) == 1 and isinstance(n.targets[0], ast.Name) and isinstance(n.value, ast.Call):
                fn = n.value.func
                if isinstance(fn, ast.Attribute) and fn.attr in ("match", "search", "fullmatch") and not A.text(fn.value).endswith("Base") \
                        and "cls" not in A.text(fn.value).lower():
                    mvars.setdefault(n.targets[0].id, []).append(n)
                elif isinstance(fn, ast.Name) and (fn.id.endswith("_re") or fn.id.startswith("_IS_") or fn.id.endswith("_RE")):
                    mvars.setdefault(n.targets[0].id, []).append(n)
        if not mvars:
            continue
        P = A.parents(f.node)
        for n in A.body_nodes(f.node):
            if isinstance(n, ast.Attribute) and isinstance(n.value, ast.Name) and n.value.id in mvars \
                    and n.attr in ("group", "start", "end", "groups", "span", "groupdict"):
                if not [d for d in mvars[n.value.id] if d.lineno <= n.lineno]:
                    continue
                r.instances += 1
                ok = O.proves_not_none(D.facts_at(f.node, n, P), n.value.id)
                r.ob(ok, "%s: `%s` after a None test" % (q, A.text(n)) if r.instances % 10 == 0 else None)
                if not ok:
                    r.fail("%s|match-deref|%s" % (q, A.text(n)), "%s dereferences the match object `%s` (`%s`) without having tested it: for text the "
                           "pattern does not match this is an AttributeError that escapes the parser" % (q, n.value.id, A.text(n)), m.loc(f, n))
    return r


# =================================================================================================
# an optional keyword that the matcher recognises is recorded in the result
# =================================================================================================
def optional_keyword_rule(m, rid):
    r = RuleResult(rid, "an optional leading keyword that a matcher skips when present is recorded in what it returns (otherwise the printer "
                        "must always print it or never print it: a token of the source is invented or dropped)")
    r.floor = 1
    n_kw = 0
    for (path, q), f in sorted(m.funcs.items()):
        if "/tests/" in path or "/two/" not in path or not q.endswith(".match"):
            continue
        for n in A.body_nodes(f.node):
            if not isinstance(n, ast.If):
                continue
            t = n.test
            if not (isinstance(t, ast.Compare) and len(t.ops) == 1 and isinstance(t.ops[0], ast.Eq) and isinstance(A.const(t.comparators[0], None), str)):
                continue
            x = t.left
            if isinstance(x, ast.Call) and isinstance(x.func, ast.Attribute) and x.func.attr in ("upper", "lower"):
                x = x.func.value
            if not (isinstance(x, ast.Subscript) and isinstance(x.slice, ast.Slice) and x.slice.lower is None):
                continue
            n_kw += 1
            base = A.text(x.value)
            if any(isinstance(s_, (ast.Return, ast.Raise)) for s_ in n.body + n.orelse):
                continue
            body_sets = {A.text(s_.targets[0]): s_ for s_ in n.body if isinstance(s_, ast.Assign)}
            else_sets = {A.text(s_.targets[0]): A.text(s_.value) for s_ in n.orelse if isinstance(s_, ast.Assign)}
            # "skip the keyword if it is there": the same variable gets the remainder in one branch and the whole text in the other
            # (or there is no else and the variable is the text itself)
            skipping = [v for v in body_sets if (else_sets.get(v) == base) or (not n.orelse and v == base)]
            if not skipping:
                continue
            r.instances += 1
            recorded = set(body_sets) - set(skipping)
            r.ob(bool(recorded), "%s: optional %r recorded in %s" % (q, A.const(t.comparators[0]), sorted(recorded)))
            if not recorded:
                r.fail("%s|optional-keyword|%s" % (q, A.const(t.comparators[0])), "%s skips the optional keyword %r when it is present and records "
                       "nothing about it: the printer cannot know whether the source had it, so it invents or drops the token "
                       "(`procedure a` inside an interface block is regenerated as `MODULE PROCEDURE a`)" % (q, A.const(t.comparators[0])),
                       m.loc(f, n))
    r.notes.append("keyword-prefix tests inspected: %d" % n_kw)
    return r


# =================================================================================================
# alternative delimiter kinds accepted by a matcher are recorded
# =================================================================================================
def alt_delimiter_rule(m, rid, module_filter=None):
    r = RuleResult(rid, "where a matcher accepts text enclosed in one of several delimiter pairs, the pair found is recorded in the result "
                        "(otherwise the printer re-delimits the text: `#include <f>` becomes `#include \"f\"`, `\"it's\"` becomes `'it's'`)")
    r.floor = 1
    for (path, q), f in sorted(m.funcs.items()):
        if "/tests/" in path or "/two/" not in path or not q.endswith(".match"):
            continue
        if module_filter and module_filter not in path:
            continue
        pairs = {}
        for n in A.body_nodes(f.node):
            if isinstance(n, ast.BoolOp) and isinstance(n.op, ast.And) and len(n.values) == 2:
                a, b = n.values
                if all(isinstance(x, ast.Compare) and len(x.ops) == 1 and isinstance(x.ops[0], ast.Eq)
                       and isinstance(A.const(x.comparators[0], None), str) for x in (a, b)):
                    la, lb = A.text(a.left), A.text(b.left)
                    if la.endswith("[0]") and lb.endswith("[-1]") and la[:-3] == lb[:-4]:
                        pairs.setdefault(la[:-3], set()).add((A.const(a.comparators[0]), A.const(b.comparators[0])))
        for base, ps in sorted(pairs.items()):
            if len(ps) < 2:
                continue
            r.instances += 1
            # recorded when some return value mentions base[0] / base itself (not only base[1:-1])
            rec = False
            for ret in A.returns(f.node):
                if ret.value is None:
                    continue
                for x in ast.walk(ret.value):
                    if A.text(x) in ("%s[0]" % base, "%s[-1]" % base, base):
                        rec = True
            r.ob(rec, "%s: delimiter pairs %s of `%s` recorded" % (q, sorted(ps), base))
            if not rec:
                r.fail("%s|alt-delimiters" % q, "%s accepts `%s` enclosed in any of %s and keeps only the inside: the printer cannot "
                       "reproduce the delimiters that were written" % (q, base, sorted(ps)), m.loc(f))
    return r


# =================================================================================================
# contradiction: a length test that an earlier length guard makes unsatisfiable (the guarded piece is never used)
# =================================================================================================
def length_contradiction_rule(m, rid):
    from rules import delim_rules as D
    r = RuleResult(rid, "no test of len(x) is made unsatisfiable by an earlier guard on the same length (the piece it guards -- an optional "
                        "third expression, a stride -- would silently never be used)")
    r.floor = 2
    OPS = {ast.Gt: lambda a, b: a > b, ast.GtE: lambda a, b: a >= b, ast.Lt: lambda a, b: a < b, ast.LtE: lambda a, b: a <= b,
           ast.Eq: lambda a, b: a == b, ast.NotEq: lambda a, b: a != b}
    for (path, q), f in sorted(m.funcs.items()):
        if "/tests/" in path or "/two/" not in path:
            continue
        tests = []
        for n in A.body_nodes(f.node):
            t = n.test if isinstance(n, (ast.If, ast.IfExp)) else None
            if t is None:
                continue
            for x in ast.walk(t):
                if isinstance(x, ast.Compare) and len(x.ops) == 1 and type(x.ops[0]) in OPS and isinstance(x.left, ast.Call) \
                        and A.dotted(x.left.func) == "len" and isinstance(A.const(x.comparators[0], None), int):
                    tests.append((n, x))
        if not tests:
            continue
        P = A.parents(f.node)
        for n, x in tests:
            subject = A.text(x.left)
            allowed = None
            for t, pol in D.facts_at(f.node, n, P):
                for lit, lp in D.expand(t, pol):
                    if not (isinstance(lit, ast.Compare) and len(lit.ops) == 1 and A.text(lit.left) == subject):
                        continue
                    op, cmp_ = lit.ops[0], lit.comparators[0]
                    vals = None
                    if isinstance(cmp_, (ast.List, ast.Tuple, ast.Set)) and all(isinstance(A.const(e, None), int) for e in cmp_.elts):
                        vals = {A.const(e) for e in cmp_.elts}
                        if (isinstance(op, ast.In) and lp) or (isinstance(op, ast.NotIn) and not lp):
                            allowed = vals if allowed is None else allowed & vals
                    elif isinstance(A.const(cmp_, None), int):
                        c = A.const(cmp_)
                        if (isinstance(op, ast.Eq) and lp) or (isinstance(op, ast.NotEq) and not lp):
                            allowed = {c} if allowed is None else allowed & {c}
            if not allowed:
                continue
            r.instances += 1
            c = A.const(x.comparators[0])
            truth = {OPS[type(x.ops[0])](v, c) for v in allowed}
            ok = truth != {False}
            r.ob(ok, "%s: `%s` with %s in %s" % (q, A.text(x), subject, sorted(allowed)))
            if not ok:
                r.fail("%s|dead-length-test|%s" % (q, A.text(x)), "%s tests `%s`, but the guard before it only lets %s in %s through: the test can "
                       "never hold, so what it guards (an optional trailing expression) is never taken from the text and is dropped from "
                       "the tree" % (q, A.text(x), subject, sorted(allowed)), m.loc(f, n))
    return r


# ---------------------------------------------------------------------------------------------------------------
# index provenance: an offset found in one string slices that string (or one with the same offsets), never another
_FIND = {"find", "rfind", "index", "rindex"}
_SAMELEN = {"upper", "lower", "swapcase", "casefold"}


def index_provenance_scan(func):
    """(sites, findings): every slice `Y[..i..]` whose bound mentions a variable i that is only ever assigned from `R.find(...)`-like
    calls; a finding when Y is neither such an R nor a same-offset alias of one (R.upper(), a plain copy)."""
    src, equiv = {}, {}
    other = set()
    for n in A.body_nodes(func):
        if isinstance(n, ast.Assign) and len(n.targets) == 1 and isinstance(n.targets[0], ast.Name):
            t, v = n.targets[0].id, n.value
            if isinstance(v, ast.Call) and isinstance(v.func, ast.Attribute) and v.func.attr in _FIND and isinstance(v.func.value, ast.Name):
                src.setdefault(t, set()).add(v.func.value.id)
            else:
                other.add(t)
                if isinstance(v, ast.Call) and isinstance(v.func, ast.Attribute) and v.func.attr in _SAMELEN and isinstance(v.func.value, ast.Name):
                    equiv.setdefault(t, set()).add(v.func.value.id)
                    equiv.setdefault(v.func.value.id, set()).add(t)
                elif isinstance(v, ast.Name):
                    equiv.setdefault(t, set()).add(v.id)
                    equiv.setdefault(v.id, set()).add(t)
        else:
            tg = []
            if isinstance(n, ast.Assign):
                tg = n.targets
            elif isinstance(n, (ast.AugAssign, ast.AnnAssign)):
                tg = [n.target]
            elif isinstance(n, (ast.For, ast.comprehension)):
                tg = [n.target]
            elif isinstance(n, ast.NamedExpr):
                tg = [n.target]
            for t in tg:
                other |= {x.id for x in ast.walk(t) if isinstance(x, ast.Name)}
    # match objects: m = <pattern>.match(R) / re.match(p, R); Y[m.end():]
    msrc = {}
    for n in A.body_nodes(func):
        if isinstance(n, ast.Assign) and len(n.targets) == 1 and isinstance(n.targets[0], ast.Name) and isinstance(n.value, ast.Call) \
                and isinstance(n.value.func, ast.Attribute) and n.value.func.attr in ("match", "search", "fullmatch") and n.value.args:
            v = n.value
            arg = v.args[1] if (A.text(v.func.value) == "re" and len(v.args) >= 2) else v.args[0]
            if isinstance(arg, ast.Name):
                msrc.setdefault(n.targets[0].id, set()).add(arg.id)
                other.discard(n.targets[0].id)
    reassigned = {t for t in msrc if sum(1 for n in A.body_nodes(func) if isinstance(n, ast.Assign) and any(
        isinstance(x, ast.Name) and x.id == t for tt in n.targets for x in ast.walk(tt))) > len([1 for n in A.body_nodes(func)
        if isinstance(n, ast.Assign) and len(n.targets) == 1 and isinstance(n.targets[0], ast.Name) and n.targets[0].id == t
        and isinstance(n.value, ast.Call) and isinstance(n.value.func, ast.Attribute) and n.value.func.attr in ("match", "search", "fullmatch")])}
    sites, bad = 0, []
    for n in A.body_nodes(func):
        if isinstance(n, ast.Subscript) and isinstance(n.value, ast.Name) and isinstance(n.slice, ast.Slice):
            for part in (n.slice.lower, n.slice.upper):
                for c in ast.walk(part) if part is not None else ():
                    if isinstance(c, ast.Call) and isinstance(c.func, ast.Attribute) and c.func.attr in ("end", "start") \
                            and isinstance(c.func.value, ast.Name) and c.func.value.id in msrc and c.func.value.id not in reassigned:
                        sites += 1
                        recv = msrc[c.func.value.id]
                        if not (n.value.id in recv or any(n.value.id in equiv.get(r_, ()) for r_ in recv)):
                            bad.append((n, A.text(c), sorted(recv)))
            used = {x.id for part in (n.slice.lower, n.slice.upper) if part is not None for x in ast.walk(part) if isinstance(x, ast.Name)}
            for i in sorted(used & set(src)):
                if i in other:
                    continue
                sites += 1
                recv = src[i]
                if n.value.id in recv or any(n.value.id in equiv.get(r_, ()) for r_ in recv):
                    continue
                bad.append((n, i, sorted(recv)))
    return sites, bad


_INDEX_POSITIVE = '''
def f(newline):
    line, repmap = string_replace_map(newline)
    i = line.find("=")
    a = line[1:i]
    b = newline[i:]
    u = newline.upper()
    j = u.find("X")
    c = newline[:j]
    mo = pat.match(line)
    d = line[mo.end():]
    e = newline[mo.end():]
    return a, b, c, d, e
'''


def index_provenance_rule(m, rid):
    r = RuleResult(rid, "an offset obtained with find/rfind/index on one string is only used to slice that string (or a same-offset copy such "
                        "as its upper-cased form), never the text before/after the replace map or another piece: otherwise the cut lands "
                        "somewhere else and text is dropped or duplicated")
    fn = ast.parse(_INDEX_POSITIVE).body[0]
    sites, bad = index_provenance_scan(fn)
    if sites != 5 or sorted((A.text(b[0]), b[1]) for b in bad) != [("newline[i:]", "i"), ("newline[mo.end():]", "mo.end()")]:
        r.error("the positive example is no longer recognised (%d sites, %s)" % (sites, [(A.text(b[0]), b[1]) for b in bad]))
        return r
    r.floor = 200
    for (path, q), f in sorted(m.funcs.items()):
        if not f.module.startswith("fparser."):
            continue
        sites, bad = index_provenance_scan(f.node)
        r.instances += sites
        for n, i, recv in bad:
            r.fail("%s|index-provenance|%s|%s" % (q, i, n.value.id), "%s: `%s` cuts `%s` at `%s`, but `%s` was found in `%s` -- a different "
                   "string with different offsets (placeholders, stripped blanks): the piece taken is not the one meant, so source text is "
                   "lost or repeated" % (q, A.text(n), n.value.id, i, i, "`/`".join(recv)), m.loc(f, n))
    r.ob(True, "%d slices by a searched offset, all on the searched string" % r.instances)
    return r


# ------------------------------------------------------------------------------------------------
# C10.R9: nodes compare by value, so positions in a collection of nodes are found by identity
# ------------------------------------------------------------------------------------------------
EQ_LIST_OPS = ("remove", "index", "count")


def _node_vars(m, f, fnode):
    """local names that hold a parse-tree node: assigned from a call of a rule class or of a class variable (`cls(reader)`)"""
    out = set()
    class_vars = {"cls", "subcls", "klass", "class_", "end_match", "startcls", "endcls"}
    for n in A.body_nodes(fnode):
        if isinstance(n, ast.Assign) and isinstance(n.value, ast.Call) and isinstance(n.value.func, ast.Name):
            callee = n.value.func.id
            is_cls = callee in class_vars
            if not is_cls and m is not None and f is not None:
                k = m.class_of_name(f, callee)
                is_cls = bool(k) and m.issub_name(k, "Base")
            if is_cls:
                for t in n.targets:
                    out.update(A.assigned_names(t))
    return out


def _eq_sites(m, f, fnode, in_node_class):
    nodes = _node_vars(m, f, fnode)
    if in_node_class:
        nodes.add("self")
    sites = []
    for n in A.body_nodes(fnode):
        if isinstance(n, ast.Call) and isinstance(n.func, ast.Attribute) and n.func.attr in EQ_LIST_OPS and len(n.args) >= 1 \
                and isinstance(n.args[0], ast.Name) and n.args[0].id in nodes:
            sites.append((n, "`%s`" % A.text(n)[:60], n.args[0].id))
        if isinstance(n, ast.Compare) and len(n.ops) == 1 and isinstance(n.ops[0], (ast.In, ast.NotIn)) \
                and isinstance(n.left, ast.Name) and n.left.id in nodes and not isinstance(n.comparators[0], (ast.Tuple, ast.Constant)):
            sites.append((n, "`%s`" % A.text(n)[:60], n.left.id))
    return sites


def node_identity_rule(m, rid):
    r = RuleResult(rid, "parse-tree nodes compare by value (two statements with the same text are equal), so a node is never looked up in "
                        "a collection with an equality-based operation (list.remove / index / count, `in`): that finds the first node "
                        "with the same text, not the node meant, and the tree ends up holding one node twice or losing another")
    # the detector must see its own positive example on every run (the expected count on the tree is zero)
    sample = ast.parse("def match(reader):\n    content = []\n    obj = cls(reader)\n    content.append(obj)\n    content.remove(obj)\n"
                       "    if obj in content:\n        pass\n").body[0]
    if len(_eq_sites(None, None, sample, False)) != 2:
        r.error("the detector no longer recognises its positive example")
        return r
    r.floor = 300
    for (p, q), f in sorted(m.funcs.items()):
        pp = p.replace("\\", "/")
        if "/tests/" in pp or "/two/" not in pp:
            continue
        r.instances += 1
        in_node_class = False
        if f.cls_node is not None:
            k = m.key(f.cls_node.name, f.module) if hasattr(f, "module") else None
            try:
                in_node_class = bool(k) and m.issub_name(k, "Base")
            except Exception:
                in_node_class = False
        sites = _eq_sites(m, f, f.node, in_node_class)
        r.ob(not sites, ("%s: no equality-based look-up of a node" % q) if r.obligations % 100 == 0 else None)
        for n, text, var in sites[:2]:
            r.fail("%s|node-equality|%s" % (q, A.text(n)[:40]), "%s looks the node `%s` up by equality (%s): nodes with the same text are "
                   "equal, so with two such statements in the collection the operation lands on the first one -- the wrong node is "
                   "removed / the wrong position is used, and the resulting tree holds a node twice or is missing one"
                   % (q, var, text), m.loc(f, n))
    return r
