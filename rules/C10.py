"""C10 -- the parse tree is a well-formed tree with consistent navigation (structural clauses)."""
import ast

from sa import astutil as A
from sa import flow as F
from sa.model import AnalysisError
from sa.report import RuleResult

UTILS = "fparser.two.utils"


def attr_writers(m, attrs, prefix="fparser.two"):
    out = []
    for (path, q), f in sorted(m.funcs.items()):
        if not f.module.startswith(prefix):
            continue
        for n in A.body_nodes(f.node):
            tg = []
            if isinstance(n, ast.Assign):
                tg = n.targets
            elif isinstance(n, (ast.AugAssign, ast.AnnAssign)):
                tg = [n.target]
            elif isinstance(n, ast.Delete):
                tg = n.targets
            elif isinstance(n, ast.Call) and (A.dotted(n.func) or "") in ("setattr", "object.__setattr__") and len(n.args) >= 2 \
                    and A.const(n.args[1]) in attrs:
                out.append((f, n, A.const(n.args[1])))
            flat = []
            for t in tg:
                flat += t.elts if isinstance(t, (ast.Tuple, ast.List)) else [t]
            for t in flat:
                if isinstance(t, ast.Attribute) and t.attr in attrs:
                    out.append((f, n, t.attr))
    return out


def r1_parent_owner(m):
    r = RuleResult("C10.R1", "only _set_parent and Base.__init__ assign a node's parent")
    r.floor = 2
    allowed = {("fparser.two.utils", "_set_parent"): "the one place that links children to their parent",
               ("fparser.two.utils", "Base.__init__"): "resets the parent of a freshly created node",
               ("fparser.two.symbol_table", "SymbolTable.__init__"): "SymbolTable.parent is the symbol-table tree, not the parse tree",
               ("fparser.two.symbol_table", "SymbolTable.parent"): "property setter of the symbol-table tree"}
    seen = set()
    for f, n, attr in attr_writers(m, ("parent", "_parent")):
        r.instances += 1
        key = (f.module, f.qualname)
        if key in allowed:
            seen.add(key)
            r.ob(True, "%s.%s: `%s` -- %s" % (key[0], key[1], A.text(n)[:50], allowed[key]))
        else:
            r.ob(False)
            r.fail("%s:%s" % key, "%s.%s assigns a node's parent (`%s`); only _set_parent/Base.__init__ own that link"
                   % (key[0], key[1], A.text(n)[:60]), m.loc(f, n))
    if ("fparser.two.utils", "_set_parent") not in seen:
        r.error("fparser.two.utils._set_parent no longer assigns .parent (anchor vanished)")
    if ("fparser.two.utils", "Base.__init__") not in seen:
        # equivalent: a class-level default (a fresh object then starts without a parent just the same)
        own = m.classes[m.key("Base", UTILS)]["own"].get("parent")
        r.instances += 1
        if own is None or own.get("kind") != "data":
            r.error("neither Base.__init__ nor a class-level default gives a new node parent None (anchor vanished)")
        else:
            r.ob(True, "Base.parent is a class-level default")
    # the link is unconditional: whatever parent a (re-used or re-matched) node had before, it is overwritten
    sp = m.need_func(UTILS, "_set_parent")
    P = A.parents(sp.node)
    for n in A.body_nodes(sp.node):
        if isinstance(n, ast.Assign) and any(isinstance(t, ast.Attribute) and t.attr == "parent" for t in n.targets):
            r.instances += 1
            x, guards = n, []
            while x in P and P[x] is not sp.node:
                p_ = P[x]
                if isinstance(p_, (ast.If, ast.While)) and x is not p_.test:
                    guards.append(p_.test)
                x = p_
            bad = [g for g in guards if any(isinstance(y, ast.Attribute) and y.attr in ("parent", "_parent") for y in ast.walk(g))]
            r.ob(not bad, "_set_parent: `%s` under guards %s" % (A.text(n), [A.text(g)[:30] for g in guards]))
            if bad:
                r.fail("_set_parent|conditional-on-old-parent", "_set_parent only links a child whose current parent passes `%s`: a node that "
                       "was already linked (statements re-matched after an abandoned labelled-DO attempt, the shortened EQUIVALENCE "
                       "list) keeps its stale parent" % A.text(bad[0])[:50], m.loc(sp, n))
    return r


class NewClient(F.Client):
    track = {"_deepcopy", "result", "obj", "$made", "$parented", "$inited_unparented", "match"}

    def __init__(self, fnode=None):
        self.bad = []
        # the locals are found by what is bound to them, not by their spelling
        self.obj = "obj"
        self.track = set(type(self).track)
        if fnode is not None:
            for n in A.body_nodes(fnode):
                if isinstance(n, ast.Assign) and len(n.targets) == 1 and isinstance(n.targets[0], ast.Name):
                    self.track.add(n.targets[0].id)
                    if isinstance(n.value, ast.Call) and (A.dotted(n.value.func) or "") == "object.__new__":
                        self.obj = n.targets[0].id

    def call_value(self, call, st):
        d = A.dotted(call.func) or ""
        if d == "object.__new__":
            return F.TRUTHY
        return F.TOP

    def call_effect(self, call, st):
        d = A.dotted(call.func) or ""
        if d == "object.__new__":
            return (st.set("$made", F.TRUE).set("$parented", F.FALSE),)
        if d.split(".")[-1] == "_set_parent" and call.args and A.text(call.args[0]) == self.obj:
            return (st.set("$parented", F.TRUE),)
        if d == self.obj + ".init" and st.get("$made") == F.TRUE and st.get("$parented") != F.TRUE:
            self.bad.append(("init-before-parent", "obj.init(...) is reached before _set_parent(obj, result)", call))
        return (st,)


def r2_parent_on_construction(m):
    r = RuleResult("C10.R2", "every node built from a match result has its children's parent set before it is initialised/returned")
    r.floor = 1
    f = m.need_func(UTILS, "Base.__new__")
    cl = NewClient(f.node)
    fl = F.Flow(m, f, cl)
    out = fl.run(F.State({"$made": F.FALSE, "$parented": F.FALSE, "_deepcopy": F.FALSE}))
    r.instances += 1
    probs = {}
    n = 0
    for st, node in out.ret:
        if node is None or node.value is None:
            continue
        if A.text(node.value) == cl.obj and st.get("$made") == F.TRUE:
            n += 1
            if st.get("$parented") != F.TRUE:
                probs["return-unparented"] = ("`return obj` is reachable for a node built from a match result without "
                                              "_set_parent(obj, result) having run", node)
    for key, msg, node in cl.bad:
        probs[key] = (msg, node)
    if n == 0:
        r.error("Base.__new__: no `return obj` after object.__new__(cls) found (anchor changed)")
    r.ob(not probs, "Base.__new__: %d returning states with a freshly made node, all parented" % n)
    for key, (msg, node) in probs.items():
        r.fail("Base.__new__|%s" % key, "Base.__new__: %s" % msg, m.loc(f, node))
    # overriding __new__ methods
    base = m.key("Base", UTILS)
    leaf_ok = {"Comment": "leaf node: items hold the comment text only", "Directive": "leaf node: items hold the directive text only"}
    for k, c in sorted(m.classes.items()):
        if k == base or not m.issub(k, base) or "__new__" not in c["own"]:
            continue
        g = m.method(k, "__new__")
        r.instances += 1
        makes = [x for x in A.calls(g.node) if (A.dotted(x.func) or "") == "object.__new__"]
        delegates = [x for x in A.calls(g.node) if (A.dotted(x.func) or "").endswith("__new__") and (A.dotted(x.func) or "") != "object.__new__"]
        # nodes made by hand: only allowed for the leaf classes, and only if their init stores no nodes
        hand = False
        for x in A.body_nodes(g.node):
            if isinstance(x, ast.Assign) and isinstance(x.value, ast.Call) and (A.dotted(x.value.func) or "") == "object.__new__":
                hand = True
        if hand:
            init = m.method(k, "init")
            ok = c["name"] in leaf_ok and init is not None and not any(
                isinstance(x, ast.Call) and isinstance(x.func, ast.Name) and m.class_of_name(init, x.func.id) for x in A.calls(init.node))
            r.ob(ok, "%s.__new__ builds the node by hand -- %s" % (c["name"], leaf_ok.get(c["name"], "NOT a confirmed leaf class")))
            if not ok:
                r.fail("%s.__new__|hand-made" % c["name"], "%s.__new__ builds a node with object.__new__ without going through "
                       "Base.__new__ (children would get no parent)" % c["name"], m.loc(g))
        else:
            ok = bool(delegates)
            r.ob(ok, "%s.__new__ delegates to %s" % (c["name"], A.dotted(delegates[0].func) if delegates else "?"))
            if not ok:
                r.fail("%s.__new__|no-delegate" % c["name"], "%s.__new__ neither delegates to Base.__new__ nor is a confirmed leaf class" % c["name"], m.loc(g))
    return r


def r3_children(m):
    r = RuleResult("C10.R3", "what a matcher hands to init is what `children` returns; later stores to items/content add no new node")
    r.floor = 6
    base = m.key("Base", UTILS)
    exempt = {("SequenceBase", "separator"): "the separator string, not a node",
              ("StringBase", "string"): "leaf text stored as .string (a str, children is empty)"}
    for k, c in sorted(m.classes.items()):
        if not m.issub(k, base) or "init" not in c["own"]:
            continue
        f = m.method(k, "init")
        params = A.param_names(f.node)[1:]
        if f.node.args.vararg:
            params.append(f.node.args.vararg.arg)
        stored = set()
        for n in A.body_nodes(f.node):
            if isinstance(n, ast.Assign) and any(isinstance(t, ast.Attribute) and t.attr in ("items", "content") for t in n.targets):
                stored |= A.names_in(n.value)
        for p in params:
            r.instances += 1
            if p in stored:
                r.ob(True, "%s.init: parameter %s is stored in items/content" % (c["name"], p))
            elif (c["name"], p) in exempt:
                r.ob(True, "%s.init: parameter %s exempt -- %s" % (c["name"], p, exempt[(c["name"], p)]))
            else:
                r.ob(False)
                r.fail("%s.init|%s" % (c["name"], p), "%s.init does not store its parameter `%s` in items/content: a node passed there "
                       "has a parent (set by _set_parent) but is not among the parent's children" % (c["name"], p), m.loc(f))
    # children property
    ch = m.method(base, "children")
    r.instances += 1
    if ch is None:
        r.error("Base.children vanished")
    else:
        txt = " ".join(A.text(s) for s in A.strip_docstring(ch.node.body))
        ok = "content" in txt and "items" in txt and txt.index("content") < txt.index("items")
        r.ob(ok, "Base.children reads content, then items")
        if not ok:
            r.fail("children", "Base.children no longer returns content (blocks) or items (everything else)", m.loc(ch))
    # post-construction stores
    for f, n, attr in attr_writers(m, ("items", "content")):
        if f.qualname.endswith(".init"):
            continue
        r.instances += 1
        tgt = [t for t in (n.targets if isinstance(n, ast.Assign) else [n.target]) if isinstance(t, ast.Attribute)][0]
        recv = A.text(tgt.value)
        ok = isinstance(n, ast.Assign) and all(
            isinstance(x, (ast.Tuple, ast.List, ast.Constant, ast.Subscript, ast.Slice, ast.Load, ast.Name, ast.Attribute,
                           ast.UnaryOp, ast.USub, ast.BinOp, ast.Add)) for x in ast.walk(n.value)) and \
            all(x.id == recv for x in ast.walk(n.value) if isinstance(x, ast.Name))
        r.ob(ok, "%s: `%s` rearranges the node's own items only" % (f.qualname, A.text(n)[:60]))
        if not ok:
            r.fail("%s|store|%s" % (f.qualname, attr), "%s stores into .%s after construction (`%s`) something that is not a "
                   "sub-sequence of the node's own items: nodes added there get no parent" % (f.qualname, attr, A.text(n)[:60]), m.loc(f, n))
    # in-place changes of a constructed node's child container (slice assignment, insert/append/extend on `<node>.content` /
    # `<node>.items`): Base.__new__ has already run _set_parent, so nodes added this way have no parent
    n_sites = 0
    for (path, q), f in sorted(m.funcs.items()):
        if "/tests/" in path or "/two/" not in path:
            continue
        for n in A.body_nodes(f.node):
            tgt = None
            if isinstance(n, (ast.Assign, ast.AugAssign)):
                for t in (n.targets if isinstance(n, ast.Assign) else [n.target]):
                    if isinstance(t, ast.Subscript) and isinstance(t.value, ast.Attribute) and t.value.attr in ("items", "content"):
                        tgt = t.value
            elif isinstance(n, ast.Call) and isinstance(n.func, ast.Attribute) and n.func.attr in ("append", "insert", "extend") \
                    and isinstance(n.func.value, ast.Attribute) and n.func.value.attr in ("items", "content"):
                tgt = n.func.value
            if tgt is None:
                continue
            n_sites += 1
            r.instances += 1
            owner = A.text(tgt.value)
            reparented = any(isinstance(c, ast.Call) and A.text(c.func).endswith("_set_parent") and c.args and A.text(c.args[0]) == owner
                             and c.lineno > n.lineno for c in A.calls(f.node))
            r.ob(reparented, "%s: `%s` followed by _set_parent(%s, ...)" % (q, A.text(n)[:50], owner))
            if not reparented:
                r.fail("%s|in-place|%s" % (q, A.text(tgt)), "%s changes `%s` of an already constructed node in place (`%s`) and does not re-run "
                       "_set_parent on it: the nodes spliced in are children without a parent (get_root() on them returns the node itself)"
                       % (q, A.text(tgt), A.text(n)[:60]), m.loc(f, n))
    r.notes.append("in-place changes of a node's child container found: %d" % n_sites)
    return r


def container_kinds(func, var_names=None):
    """Kinds named in isinstance(x, (list, tuple)) tests of a function, per tested variable."""
    out = {}
    for n in A.body_nodes(func):
        if isinstance(n, ast.Call) and A.dotted(n.func) == "isinstance" and len(n.args) == 2:
            kinds = set()
            arg = n.args[1]
            for e in (arg.elts if isinstance(arg, ast.Tuple) else [arg]):
                if isinstance(e, ast.Name) and e.id in ("list", "tuple"):
                    kinds.add(e.id)
            if kinds:
                out.setdefault(A.text(n.args[0]), []).append((kinds, n))
    return out


def _iter_of(node):
    """The iterable an extend/+= argument runs over: a generator/list comprehension's first iter, or the expression itself."""
    if isinstance(node, (ast.GeneratorExp, ast.ListComp)):
        return node.generators[0].iter
    return node


def _walk_explicit_stack(m, r, wk):
    """Second recognised shape: an explicit LIFO stack.  Pre-order in list order requires that every sequence pushed onto
    the stack is pushed reversed; a FIFO queue (pop(0)/popleft) would be breadth-first."""
    pops = [c for c in A.calls(wk.node) if isinstance(c.func, ast.Attribute) and c.func.attr in ("pop", "popleft") and isinstance(c.func.value, ast.Name)]
    if len(pops) != 1:
        r.error("walk: traversal shape not recognised (neither recursive nor a single explicit stack)")
        return r
    stack = pops[0].func.value.id
    r.instances += 1
    if pops[0].func.attr == "popleft" or pops[0].args:
        r.ob(False)
        r.fail("walk|fifo", "walk takes nodes from the front of its work list: that is a breadth-first traversal, nodes are not yielded in "
               "source order", m.loc(wk, pops[0]))
        return r
    pushes = []
    for n in A.body_nodes(wk.node):
        if isinstance(n, ast.Call) and isinstance(n.func, ast.Attribute) and n.func.attr in ("extend", "append") and A.text(n.func.value) == stack and n.args:
            pushes.append((n, n.args[0], n.func.attr))
        if isinstance(n, ast.AugAssign) and A.text(n.target) == stack:
            pushes.append((n, n.value, "extend"))
        if isinstance(n, ast.Assign) and A.text(n.targets[0]) == stack and isinstance(n.value, (ast.ListComp, ast.GeneratorExp, ast.Call, ast.List)):
            pushes.append((n, n.value, "init"))
    bad = None
    kinds = set()
    children = False
    for node, arg, how in pushes:
        if how == "append":
            continue
        it = _iter_of(arg)
        if isinstance(it, ast.Call) and A.dotted(it.func) in ("list", "tuple") and it.args:
            it = _iter_of(it.args[0])
        rev = isinstance(it, ast.Call) and A.dotted(it.func) == "reversed"
        inner = it.args[0] if rev and it.args else it
        if A.text(inner).endswith(".children"):
            children = True
        if not rev and not (isinstance(it, ast.List) and len(it.elts) <= 1):
            bad = (node, A.text(inner))
    P = A.parents(wk.node)
    for var, lst in container_kinds(wk.node).items():
        for ks, node in lst:
            if var != "node_list":
                kinds |= ks
    r.ob(bad is None, "walk uses an explicit LIFO stack `%s`; every pushed sequence is reversed" % stack)
    if bad:
        r.fail("walk|stack-order|%s" % bad[1][:30], "walk pushes `%s` onto its LIFO stack without reversing it: those components are visited "
               "last-to-first, so nodes are not yielded in source order" % bad[1], m.loc(wk, bad[0]))
    r.instances += 1
    ok = {"list", "tuple"} <= kinds and children
    r.ob(ok, "walk (stack form) descends into child.children and into %s components" % sorted(kinds))
    if not ok:
        r.fail("walk|kinds|%s" % ",".join(sorted(kinds)), "walk (stack form) does not descend into node children and both list and tuple "
               "components (found: children=%s, kinds=%s)" % (children, sorted(kinds)), m.loc(wk))
    return r


def r4_walk(m):
    r = RuleResult("C10.R4", "_set_parent and walk descend into the same container kinds (list and tuple), fully and in order")
    r.floor = 2
    sp = m.need_func(UTILS, "_set_parent")
    wk = m.need_func(UTILS, "walk")
    # ---- _set_parent: full recursion into list and tuple
    r.instances += 1
    P = A.parents(sp.node)
    rec_kinds = set()
    partial = []
    for var, lst in container_kinds(sp.node).items():
        for kinds, node in lst:
            # find the If whose test contains this isinstance
            x = node
            while x in P and not isinstance(P[x], ast.If):
                x = P[x]
            iff = P.get(x)
            if not isinstance(iff, ast.If):
                continue
            body_calls = [c for s in iff.body for c in ast.walk(s) if isinstance(c, ast.Call)]
            recurses = any((A.dotted(c.func) or "") == "_set_parent" and len(c.args) >= 2 and A.text(c.args[1]) == var for c in body_calls)
            if recurses:
                rec_kinds |= kinds
            else:
                partial.append((kinds, iff))
    ok = {"list", "tuple"} <= rec_kinds and not partial
    r.ob(ok, "_set_parent recurses (by a recursive call on the container) into %s" % sorted(rec_kinds))
    if not ok:
        if partial:
            kinds, iff = partial[0]
            r.fail("_set_parent|partial|%s" % ",".join(sorted(kinds)), "_set_parent handles %s without recursing into it: nodes nested "
                   "one level deeper (e.g. tuples inside a list) get no parent" % sorted(kinds), m.loc(sp, iff))
        else:
            r.fail("_set_parent|kinds", "_set_parent recurses only into %s; matchers build both lists and tuples of nodes"
                   % sorted(rec_kinds), m.loc(sp))
    # ---- walk
    recursive = any((A.dotted(c.func) or "") == "walk" for c in A.calls(wk.node))
    if not recursive:
        return _walk_explicit_stack(m, r, wk)
    r.instances += 1
    wkinds = set()
    for var, lst in container_kinds(wk.node).items():
        for kinds, node in lst:
            # only count tests that guard a recursion over the variable's components
            x = node
            Pw = A.parents(wk.node)
            while x in Pw and not isinstance(Pw[x], ast.If):
                x = Pw[x]
            iff = Pw.get(x)
            if isinstance(iff, ast.If) and x is iff.test:
                calls = [c for s in iff.body for c in ast.walk(s) if isinstance(c, ast.Call) and (A.dotted(c.func) or "") == "walk"]
                if calls and var != "node_list":
                    wkinds |= kinds
    ok = {"list", "tuple"} <= wkinds
    r.ob(ok, "walk recurses into the components of %s" % sorted(wkinds))
    if not ok:
        r.fail("walk|kinds|%s" % ",".join(sorted(wkinds)), "walk descends only into %s children while _set_parent links nodes held in "
               "both lists and tuples: nodes inside the missing kind have a parent but are never visited" % sorted(wkinds), m.loc(wk))
    # walk: recursive pre-order shape
    r.instances += 1
    loops = [n for n in wk.node.body if isinstance(n, ast.For)]
    shape_ok = False
    why = "no top-level for-loop over the node list"
    if len(loops) == 1:
        lp = loops[0]
        it = A.text(lp.iter)
        tgt = A.text(lp.target)
        if any(isinstance(x, ast.Call) and (A.dotted(x.func) or "") in ("reversed", "sorted", "set") for x in ast.walk(lp.iter)):
            why = "the loop does not iterate in list order (%s)" % it
        else:
            # position of the append of the child and of the first recursion
            app = rec = None
            for i, s in enumerate(lp.body):
                for x in ast.walk(s):
                    if isinstance(x, ast.Call) and isinstance(x.func, ast.Attribute) and x.func.attr == "append" and x.args \
                            and A.text(x.args[0]) == tgt and app is None:
                        app = i
                    if isinstance(x, ast.Call) and (A.dotted(x.func) or "") == "walk" and rec is None:
                        rec = i
            rec_children = any(isinstance(x, ast.Call) and (A.dotted(x.func) or "") == "walk" and x.args and
                               A.text(x.args[0]) == tgt + ".children" for x in ast.walk(lp))
            inner_rev = any(isinstance(x, ast.Call) and (A.dotted(x.func) or "") in ("reversed", "sorted") for s in lp.body for x in ast.walk(s))
            if app is None or rec is None:
                why = "child append or recursion not found in the loop"
            elif app > rec:
                why = "the node is appended after its descendants (not pre-order)"
            elif not rec_children:
                why = "walk does not recurse on child.children"
            elif inner_rev:
                why = "components are visited in reversed/sorted order"
            else:
                shape_ok = True
        if shape_ok:
            r.ob(True, "walk is a recursive pre-order traversal in list order")
        elif why.startswith(("the loop does not", "the node is appended", "components are visited", "walk does not recurse")):
            r.ob(False)
            r.fail("walk|order", "walk: %s, so nodes are not yielded in source order" % why, m.loc(wk, lp))
        else:
            r.error("walk: traversal shape not recognised (%s)" % why)
    else:
        r.error("walk: traversal shape not recognised (%s)" % why)
    # get_root
    r.instances += 1
    gr = m.method(m.key("Base", UTILS), "get_root")
    if gr is None:
        r.error("Base.get_root vanished")
    else:
        loops = [n for n in A.body_nodes(gr.node) if isinstance(n, ast.While)]
        ok = len(loops) == 1 and A.text(loops[0].test).endswith(".parent") and \
            all(isinstance(s, ast.Assign) and A.text(s.value).endswith(".parent") for s in loops[0].body) and \
            len(A.returns(gr.node)) == 1
        r.ob(ok, "get_root follows .parent until it is empty and returns that node")
        if not ok:
            r.fail("get_root", "Base.get_root no longer simply follows .parent to the node that has none", m.loc(gr))
    return r


def r6_raw_construction(m):
    r = RuleResult("C10.R6", "parse-tree nodes are only created through their class constructor: raw object construction happens inside a "
                             "__new__ method on `cls`, and node objects are never shallow-copied")
    r.floor = 5
    base = m.key("Base", UTILS)
    for (p, q), f in sorted(m.funcs.items()):
        if "/tests/" in p or not ("/two/" in p or p.endswith("common/readfortran.py")):
            continue
        for c in A.calls(f.node):
            d = A.dotted(c.func) or ""
            raw = d == "object.__new__" or (d.endswith(".__new__") and d.startswith("super()")) or \
                (isinstance(c.func, ast.Attribute) and c.func.attr == "__new__" and isinstance(c.func.value, ast.Call)
                 and A.dotted(c.func.value.func) == "super")
            if raw:
                r.instances += 1
                in_new = q.endswith(".__new__") and f.cls_node is not None
                on_cls = bool(c.args) and A.text(c.args[0]) == "cls" or (not c.args)
                ok = in_new and on_cls
                r.ob(ok, "%s: `%s`" % (q, A.text(c)[:40]))
                if not ok:
                    r.fail("%s|raw-new|%s" % (q, A.text(c)[:30]), "%s builds an object with `%s` outside a __new__ method: a parse-tree node made that "
                           "way skips Base.__new__, so its children are never given it as parent (they keep whatever parent they had)"
                           % (q, A.text(c)[:50]), m.loc(f, c))
            if d in ("copy.copy", "copy") and c.args and not isinstance(c.args[0], (ast.List, ast.Dict, ast.Tuple, ast.Constant)):
                r.instances += 1
                r.ob(False)
                r.fail("%s|shallow-copy|%s" % (q, A.text(c)[:30]), "%s makes a shallow copy (`%s`) in the parser/reader: a shallow copy of a parse-tree "
                       "node shares its children, whose parent stays the original" % (q, A.text(c)[:50]), m.loc(f, c))
    return r


def run(m, tier):
    results = [r1_parent_owner(m), r2_parent_on_construction(m), r3_children(m), r4_walk(m), r6_raw_construction(m)]
    from rules import C18
    r7 = C18.r5_no_back_reference(m)
    r7.rule = "C10.R7"
    r7.title = "every reader item is delivered once: the reader keeps no item it has handed out (a replayed item returns the nodes cached on it, so one node object would occur twice in the tree) (shared with C18.R5)"
    for f_ in r7.findings:
        f_.rule = "C10.R7"
    results.append(r7)
    from rules import shapes_rules
    results += shapes_rules.c10_rules(m)
    from rules import guard_rules
    results.append(guard_rules.node_identity_rule(m, "C10.R9"))
    from rules import prog_rules
    results.append(prog_rules.tree_rule(m, "C10.R10", tier))
    expl = ("Decides structural clauses of C10: who assigns .parent; Base.__new__ parents the children of every node it builds before "
            "init/return (typestate over its paths) and overriding __new__ methods delegate or build confirmed leaf nodes; every init "
            "stores what it is given into items/content (what `children` returns) and later stores only rearrange a node's own items; "
            "_set_parent and walk both fully descend into lists and tuples, walk is a recursive pre-order traversal in list order, "
            "get_root follows .parent; matchers build each returned node by a fresh constructor call (no node object reused). "
            "raw object construction only inside __new__ on cls and no shallow copies in the parser/reader; _set_parent links unconditionally. Does NOT decide absence of stale parents after backtracking through the per-line cache.")
    return results, expl
