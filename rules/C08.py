"""C08 -- ill-nested constructs are never accepted (structural clauses)."""
import ast
import json
import os

from sa import astutil as A
from sa import tables
from sa.report import RuleResult
from sa.model import AnalysisError

HERE = os.path.dirname(os.path.abspath(__file__))
ORACLE = os.path.join(os.path.dirname(HERE), "oracle", "blocks.json")


def cname(val):
    if val is None:
        return None
    if val.kind == "class":
        return val.v.split(":")[1]
    if val.kind == "none":
        return None
    return "?"


def classes_of(val):
    """class names in a Val that is a class, or a list/tuple of classes."""
    if val is None:
        return []
    if val.kind == "class":
        return [val.v.split(":")[1]]
    if val.kind in ("list", "tuple"):
        out = []
        for e in val.v:
            out += classes_of(e)
        return out
    return []


def r1_block_table(m, blocks):
    r = RuleResult("C08.R1", "block-construct table agrees with the standard (start/END pair, name and label matching)")
    r.floor = 35
    oracle = json.load(open(ORACLE))["constructs"]
    seen = set()
    for inst in blocks:
        r.instances += 1
        name = inst.name
        key = "%s" % inst.tag
        where = m.loc(inst.func, inst.call)
        if not inst.args:
            r.error("%s: cannot bind arguments of BlockBase.match call at %s" % (key, where))
            continue
        start, end = inst.args.get("startcls"), inst.args.get("endcls")
        if start is None or end is None or start.kind == "unknown" or end.kind == "unknown":
            r.error("%s: startcls/endcls not statically resolvable at %s (%s, %s)" % (key, where, start, end))
            continue
        r.sample("%s: start=%s end=%s labels=%s names=%s strict=%s name_classes=%s" % (
            key, start, end, inst.flag("match_labels"), inst.flag("match_names"),
            inst.flag("strict_match_names"), inst.args.get("match_name_classes")))
        o = oracle.get(name)
        if o is not None:
            seen.add(name)
            ok = cname(start) == o["start"]
            r.ob(ok)
            if not ok:
                r.fail("%s|startcls" % key, "%s opens with %s, the standard (%s) says %s"
                       % (name, cname(start), o["rule"], o["start"]), where)
            ok = cname(end) == o["end"]
            r.ob(ok)
            if not ok:
                r.fail("%s|endcls" % key, "%s is closed by %s, the standard (%s) says %s"
                       % (name, cname(end), o["rule"], o["end"]), where)
            if o.get("names"):
                ok = inst.flag("match_names") is True
                r.ob(ok)
                if not ok:
                    r.fail("%s|match_names" % key, "%s: construct names are not compared (match_names is not True)" % name, where)
            if o.get("strict"):
                ok = inst.flag("strict_match_names") is True
                r.ob(ok)
                if not ok:
                    r.fail("%s|strict_match_names" % key,
                           "%s: a named opening statement does not require the END name (strict_match_names is not True)" % name, where)
            if o.get("labels"):
                ok = inst.flag("match_labels") is True
                r.ob(ok)
                if not ok:
                    r.fail("%s|match_labels" % key, "%s: labels are not compared (match_labels is not True)" % name, where)
            if o.get("name_classes"):
                got = set(classes_of(inst.args.get("match_name_classes")))
                missing = sorted(set(o["name_classes"]) - got)
                # the END class is compared through the endcls branch as well
                missing = [c for c in missing if c != o["end"]]
                r.ob(not missing)
                if missing:
                    r.fail("%s|match_name_classes" % key,
                           "%s: intermediate statements %s can carry the construct name but are not in match_name_classes"
                           % (name, missing), where)
        # generic rules, also for constructs the oracle does not know
        if start.kind == "class" and end.kind == "class":
            sclos = m.closure_all(start.v)
            eclos = m.closure_all(end.v)
            start_named = [k for k in sclos if m.has_attr(k, "get_start_name")]
            end_named = [k for k in eclos if m.has_attr(k, "get_end_name")]
            if start_named and end_named:
                ok = inst.flag("match_names") is True
                r.ob(ok)
                if not ok:
                    r.fail("%s|generic-names" % key,
                           "%s: the opening statement (%s) and the END statement (%s) can both carry a construct name "
                           "but the names are never compared" % (name, start_named[0].split(':')[1], end_named[0].split(':')[1]), where)
        if start.kind == "class" and end.kind == "none" and o is not None:
            r.ob(False)
            r.fail("%s|noend" % key, "%s has no END class" % name, where)
    for name in oracle:
        if name not in seen:
            r.error("construct %s of the oracle has no BlockBase.match instance (anchor vanished)" % name)
    return r


def r2_end_table(m, ends):
    r = RuleResult("C08.R2", "END statements name their construct keyword and require it where the standard does")
    r.floor = 18
    oracle = json.load(open(ORACLE))["end_statements"]
    seen = set()
    for inst in ends:
        r.instances += 1
        name = inst.name
        where = m.loc(inst.func, inst.call)
        o = oracle.get(name)
        st = inst.args.get("stmt_type")
        req = inst.flag("require_stmt_type")
        r.sample("%s: stmt_type=%s require_stmt_type=%s" % (inst.tag, st, req))
        if st is None or st.kind != "const":
            r.error("%s: stmt_type is not a literal at %s" % (name, where))
            continue
        if o is None:
            continue
        seen.add(name)
        ok = st.v == o["type"]
        r.ob(ok)
        if not ok:
            r.fail("%s|stmt_type" % inst.tag, "%s matches keyword %r, the standard (%s) says %r" % (name, st.v, o["rule"], o["type"]), where)
        if o["require"]:
            ok = req is True
            r.ob(ok)
            if not ok:
                r.fail("%s|require_stmt_type" % inst.tag,
                       "%s accepts a bare END (require_stmt_type is not True) but %s must name its construct" % (name, o["rule"]), where)
    for name in oracle:
        if not name.startswith("_") and name not in seen:
            r.error("END class %s of the oracle has no EndStmtBase.match instance (anchor vanished)" % name)
    return r


def r4_opener_index(m):
    r = RuleResult("C08.R4", "the block engine addresses the opening statement as content[start_idx]: index 0 may be a preceding comment")
    r.floor = 2
    from rules import common_block
    ctx = common_block.get_ctx(m)
    eng = ctx.engine
    pre = any((A.dotted(c.func) or "").endswith("add_comments_includes_directives") for c in A.calls(eng.node))
    n_ok = 0
    for n in A.body_nodes(eng.node):
        if isinstance(n, ast.Subscript) and A.text(n.value) == "content" and isinstance(n.ctx, ast.Load):
            r.instances += 1
            idx = A.text(n.slice)
            bad = pre and isinstance(n.slice, ast.Constant) and n.slice.value == 0
            r.ob(not bad, "content[%s]" % idx)
            if bad:
                r.fail("BlockBase.match|content[0]", "BlockBase.match reads content[0] as a statement of the construct, but comments, includes and "
                       "directives collected before the opening statement come first in `content`: with a preceding comment the name/label "
                       "check is applied to the comment and silently skipped", m.loc(eng, n))
    return r


def r10_fallback_width(m):
    r = RuleResult("C08.R10", "the fallback to a main program without PROGRAM statement is taken only when no program unit matched "
                              "(NoMatchError), never after a syntax error was raised inside a unit")
    r.floor = 1
    f = m.need_func("fparser.two.Fortran2003", "Program.match")
    hs = []
    for n in A.body_nodes(f.node):
        if isinstance(n, ast.Try):
            for h in n.handlers:
                if any(isinstance(x, ast.Name) and x.id == "Main_Program0" for s_ in h.body for x in ast.walk(s_)):
                    hs.append(h)
    if not hs:
        r.error("Program.match: the handler that falls back to Main_Program0 was not found (anchor changed)")
        return r
    for h in hs:
        r.instances += 1
        if h.type is None:
            types = ["<bare except>"]
        elif isinstance(h.type, ast.Tuple):
            types = [A.text(e) for e in h.type.elts]
        else:
            types = [A.text(h.type)]
        wide = [t for t in types if t != "NoMatchError"]
        r.ob(not wide, "Program.match: fallback handler catches %s" % types)
        if wide:
            r.fail("Program.match|fallback-catches|%s" % ",".join(wide), "Program.match also falls back to a main program without PROGRAM statement "
                   "after %s: a unit that raised on an END name mismatch has already consumed its lines, so the fallback parses the rest "
                   "of the file and returns it as the tree instead of reporting the error" % "/".join(wide), m.loc(f, h))
    return r


def r12_stray_end(m, blocks):
    from rules import common_block as cb
    r = RuleResult("C08.R12", "a statement of the END class whose label does not close the construct stays in the body only if it is also an "
                              "ordinary body statement (a labelled CONTINUE); an END statement that cannot occur in a body is not absorbed")
    r.floor = 1
    ctx = cb.get_ctx(m)
    eng = ctx.engine
    # the engine's reaction to a label mismatch on an END-class object
    keeps = None
    for n in A.body_nodes(eng.node):
        if isinstance(n, ast.If) and isinstance(n.test, ast.Compare) and "start_label" in A.text(n.test) and "end_label" in A.text(n.test):
            keeps = any(isinstance(s_, ast.Continue) for s_ in n.body) and not any(isinstance(s_, (ast.Raise, ast.Return)) for s_ in n.body)
            where = m.loc(eng, n)
    if keeps is None:
        r.error("BlockBase.match: the label comparison of start and END statement was not found (anchor changed)")
        return r
    for inst in blocks:
        if inst.flag("match_labels") is not True or not inst.args:
            continue
        r.instances += 1
        end_all = cb.end_all(ctx, inst)
        body = set()
        sub = inst.args.get("subclasses")
        if sub is not None and sub.kind in ("list", "tuple"):
            for e in sub.v:
                if e.kind == "class":
                    body |= m.closure_all(e.v)
        stray = sorted(k.split(":")[1] for k in end_all if k not in body and m.method(k, "match") is not None)
        ok = not (keeps and stray)
        r.ob(ok, "%s: END classes %s, not body statements: %s" % (inst.tag, sorted(k.split(":")[1] for k in end_all), stray))
        if not ok:
            r.fail("%s|stray-end-kept|%s" % (inst.tag, ",".join(stray)), "%s: an END-class statement whose label does not match the opening statement is "
                   "kept as body content and the search goes on; for %s that is never a body statement, so a surplus unlabelled END DO inside a "
                   "labelled DO is absorbed (`do 10 i=1,2 / x = 1 / end do / 10 continue` is accepted)" % (inst.tag, "/".join(stray)), where)
    return r


def run(m, tier):
    blocks = tables.engine_instances(m, "BlockBase")
    ends = tables.engine_instances(m, "EndStmtBase")
    results = [r1_block_table(m, blocks), r2_end_table(m, ends)]
    from rules import common_block
    results += common_block.c08_engine_rules(m, blocks, ends)
    results.append(r4_opener_index(m))
    from rules import engine_tables
    results.append(engine_tables.end_stmt_rule(m, "C08.R5"))
    results.append(engine_tables.bracket_rule(m, "C08.R6"))
    results.append(engine_tables.call_base_rule(m, "C08.R11"))
    from rules import regex_rules
    results.append(regex_rules.anchor_rule(m, "C08.R7"))
    from rules import delim_rules
    results.append(delim_rules.delimiter_rule(m, "C08.R8"))
    from rules import guard_rules
    results.append(guard_rules.guarded_use_rule(m, "C08.R9"))
    results.append(r10_fallback_width(m))
    results.append(r12_stray_end(m, blocks))
    from rules import order_rules
    results.append(order_rules.eof_probe_rule(m, "C08.R13"))
    results.append(engine_tables.whole_string_pattern_rule(m, "C08.R14"))
    results.append(r15_unit_end_in_body(m, blocks))
    r16 = engine_tables.word_cls_rule(m, "C08.R16")
    r16.title = "text after a keyword that takes nothing (BLOCK, CRITICAL ...: cls=None) is refused, so a stray parenthesis there is not dropped: " + r16.title
    results.append(r16)
    from rules import prog_rules
    results.append(prog_rules.nesting_rule(m, "C08.R17", tier))
    from rules import order_rules as _or_gb
    results.append(_or_gb.giveback_complete_rule(m, "C08.R18"))
    expl = ("Decides the structural clauses of C08: the table of block constructs extracted from every "
            "BlockBase.match call site agrees with the Fortran 2003/2008 rules (opening/END pair, name and label "
            "comparison flags), every END statement class names its keyword and refuses a bare END where the standard "
            "does, and the generic block engine, specialised per call site, can only report a match after the END "
            "class was seen and raises on every name mismatch. Brackets/quotes are stripped with x[1:-1] only after both ends of x were tested on that path (40 sites). Does NOT decide absorption of stray statements by "
            "enclosing constructs for every nest, nor unbalanced parentheses.")
    return results, expl


UNIT_ENDS = ("End_Function_Stmt", "End_Subroutine_Stmt", "End_Program_Stmt", "End_Module_Stmt", "End_Submodule_Stmt", "End_Block_Data_Stmt")


def r15_unit_end_in_body(m, blocks):
    """C201: an END FUNCTION / END SUBROUTINE / END PROGRAM statement cannot be a statement of a construct's body.  The grammar lists
    them under action-stmt; the execution part itself uses the ..._C201 classes that leave them out, nested constructs must do so too."""
    r = RuleResult("C08.R15", "no END statement of a program unit is reachable as a body statement of a construct (grammar closure of the body "
                              "classes of every block instance, both standards): otherwise a surplus `END SUBROUTINE` inside an IF or DO body "
                              "is accepted as an ordinary statement")
    r.floor = 20
    seen = {}
    for inst in blocks:
        if not inst.args:
            continue
        subs = inst.args.get("subclasses")
        ec = inst.args.get("endcls")
        if subs is None or subs.kind not in ("list", "tuple"):
            continue
        if ec is not None and ec.kind == "class" and ec.v.split(":")[1] in UNIT_ENDS:
            continue          # the program-unit blocks themselves: their parts are checked where they are defined
        std = "f2008" if "Fortran2008" in inst.concrete else "f2003"
        for v in subs.v:
            if v.kind != "class":
                continue
            r.instances += 1
            for std_ in ((std,) if std == "f2008" else ("f2003", "f2008")):
                k = m.std_class(std_, v.v.split(":")[1]) or v.v
                for x in m.closure(std_, k):
                    nm = x.split(":")[1]
                    if nm in UNIT_ENDS:
                        seen.setdefault((v.v.split(":")[1], nm), inst)
    for (body, end), inst in sorted(seen.items()):
        r.ob(False)
        r.fail("%s|unit-end-reachable|%s" % (body, end), "%s (a body class of %s and other constructs) can be matched by %s: a surplus `%s` "
               "line inside the construct is accepted as one of its statements (constraint C201 is only enforced for the execution part "
               "itself)" % (body, inst.tag, end, end.replace("_Stmt", "").replace("_", " ").upper()), m.loc(inst.func, inst.call))
    if not seen:
        r.ob(True, "no program-unit END class reachable from any construct body")
    return r
