"""Generic matcher engines that are straight-line string functions, decided as finite tables: their AST is interpreted
(sa.pureeval) with the child-class constructor replaced by a recording stub, over enumerated sample strings."""
import ast
import re

from sa import astutil as A
from sa import pureeval as PE
from sa import tables
from sa.report import RuleResult

UTILS = "fparser.two.utils"
F03 = "fparser.two.Fortran2003"


class Node:
    """Stands for a constructed child node: records its class tag and text."""

    def __init__(self, tag, text):
        self.tag = tag
        self.text = text

    def __repr__(self):
        return "%s(%r)" % (self.tag, self.text)

    def __eq__(self, other):
        return isinstance(other, Node) and (self.tag, self.text) == (other.tag, other.text)

    def __hash__(self):
        return hash((self.tag, self.text))


def ctor(tag):
    return lambda text, *a, **k: Node(tag, text)


def run(ev, f, args, kwargs=None):
    try:
        return ev.run_function(f.node, args, kwargs)
    except PE.PyRaise as err:
        return err
    except PE.Unsupported as err:
        from sa.model import AnalysisError
        raise AnalysisError("%s cannot be interpreted as a straight-line table (%s)" % (f.qualname, err))


RE_MODULE = PE.Obj({"match": re.match, "search": re.search, "compile": re.compile, "sub": re.sub, "split": re.split, "findall": re.findall,
                    "escape": re.escape, "I": re.I, "IGNORECASE": re.IGNORECASE})


def end_stmt_rule(m, rid):
    r = RuleResult(rid, "EndStmtBase.match, decided as a table for each of the END classes: `END [<type> [<name>]]`, blank- and case-insensitive "
                        "type, bare END only where allowed, nothing else")
    r.floor = 18
    f = m.method(m.key("EndStmtBase", UTILS), "match")
    if f is None:
        r.error("EndStmtBase.match vanished")
        return r
    ends = tables.engine_instances(m, "EndStmtBase")
    for inst in ends:
        st = inst.args.get("stmt_type")
        if st is None or st.kind != "const":
            continue
        stype = st.v
        req = inst.flag("require_stmt_type") is True
        named = inst.args.get("stmt_name") is not None and inst.args["stmt_name"].kind == "class"
        name_cls = ctor("Name") if named else None
        r.instances += 1
        ev = PE.Evaluator({"re": RE_MODULE})
        compact = stype.replace(" ", "")
        cases = [
            ("END", None if req else (None, None)),
            ("end", None if req else (None, None)),
            ("END %s" % stype, (stype, None)),
            ("end %s" % stype.lower(), (stype, None)),
            ("END%s" % compact, (stype, None)),
            ("EnD  %s" % stype.title(), (stype, None)),
            ("END %s foo" % stype, (stype, Node("Name", "foo")) if named else None),
            ("END %sX" % stype, "reject-or-name"),
            ("ENDX", None),
            ("EN", None),
            ("%s" % stype, None),
            ("END OTHER", None),
        ]
        if " " in stype:
            cases.append(("END %s" % compact, (stype, None)))
        bad = None
        for text, want in cases:
            got = run(ev, f, [stype, name_cls, text], {"require_stmt_type": req})
            if isinstance(got, PE.PyRaise):
                bad = (text, "raises %s" % got.exc_type, want)
                break
            if want == "reject-or-name":
                # `END IFX`: the remainder after the type is taken as a name -- acceptable only if there is a name class
                ok = got is None or (named and isinstance(got, tuple) and got[0] == stype)
            else:
                ok = got == want
            if not ok:
                bad = (text, got, want)
                break
        r.ob(bad is None, "%s: %d strings decided for stmt_type=%r require=%s" % (inst.tag, len(cases), stype, req))
        if bad:
            r.fail("%s|%s" % (inst.tag, bad[0]), "%s: EndStmtBase.match(%r, ..., %r, require_stmt_type=%s) gives %r, expected %r"
                   % (inst.tag, stype, bad[0], req, bad[1], bad[2]), m.loc(f))
    return r


def bracket_rule(m, rid):
    r = RuleResult(rid, "BracketBase.match, decided as a table: only a string that starts with the opening and ends with the closing bracket "
                        "matches, and its inside is handed to the child class unchanged")
    r.floor = 10
    f = m.method(m.key("BracketBase", UTILS), "match")
    if f is None:
        r.error("BracketBase.match vanished")
        return r
    ev = PE.Evaluator({"re": RE_MODULE})
    c = ctor("X")
    cases = [
        (("()", c, "(a)"), ("(", Node("X", "a"), ")")),
        (("()", c, " ( a + b ) "), ("(", Node("X", "a + b )".rstrip(" )") if False else "a + b "), ")")),
        (("()", c, "(a"), None), (("()", c, "a)"), None), (("()", c, "a"), None), (("()", c, ""), None),
        (("()", c, ")("), None), (("()", c, "("), None), (("()", c, ")"), None),
        (("()", c, "()"), None),
        (("(//)", c, "(/ 1, 2 /)"), ("(/", Node("X", "1, 2 "), "/)")),
        (("(//)", c, "(/ 1, 2 )"), None), (("(//)", c, "( 1, 2 /)"), None),
        (("[]", c, "[1]"), ("[", Node("X", "1"), "]")), (("[]", c, "[1)"), None),
    ]
    for args, want in cases:
        r.instances += 1
        got = run(ev, f, list(args))
        if isinstance(got, PE.PyRaise):
            ok = False
        else:
            ok = got == want
        r.ob(ok, "BracketBase.match%r -> %r" % (args[::2], got))
        if not ok:
            r.fail("BracketBase|%s|%s" % (args[0], args[2]), "BracketBase.match(%r, X, %r) gives %r, expected %r: %s" % (
                args[0], args[2], got, want, "a string with a missing bracket is accepted" if want is None else "a well-bracketed string is mishandled"), m.loc(f))
    # optional content
    r.instances += 1
    got = run(ev, f, ["()", c, "()"], {"require_cls": False})
    ok = got == ("(", None, ")")
    r.ob(ok)
    if not ok:
        r.fail("BracketBase|optional", "BracketBase.match('()', X, '()', require_cls=False) gives %r" % (got,), m.loc(f))
    return r


def unary_rule(m, rid):
    r = RuleResult(rid, "UnaryOpBase.match, decided as a table: the operator is taken at the start only, upper-cased, and the rest goes to the operand class")
    r.floor = 6
    f = m.method(m.key("UnaryOpBase", UTILS), "match")
    if f is None:
        r.error("UnaryOpBase.match vanished")
        return r
    pats = m.snap["patterns"]
    ev = PE.Evaluator({"re": RE_MODULE})
    c = ctor("R")
    for pname, samples in (("not_op", [(".not. a", (".NOT.", Node("R", "a"))), (".NOT.a", (".NOT.", Node("R", "a"))), ("a .not. b", None), (".not.", None), ("", None)]),
                           ("add_op", [("- a", ("-", Node("R", "a"))), ("+a*b", ("+", Node("R", "a*b"))), ("a - b", None), ("-", None)]),
                           ("defined_unary_op", [(".foo. x", (".FOO.", Node("R", "x"))), ("x .foo. y", None),
                                                 (".u. .true.", (".U.", Node("R", ".true."))), (".u. .false. * 2", (".U.", Node("R", ".false. * 2")))])):
        ent = pats.get(pname)
        if ent is None:
            r.error("pattern %s vanished" % pname)
            continue
        rx = re.compile(ent["compiled_pattern"], ent["compiled_flags"])
        for text, want in samples:
            r.instances += 1
            got = run(ev, f, [rx, c, text])
            ok = (not isinstance(got, PE.PyRaise)) and got == want
            r.ob(ok, "UnaryOpBase.match(%s, R, %r) -> %r" % (pname, text, got))
            if not ok:
                r.fail("UnaryOpBase|%s|%s" % (pname, text), "UnaryOpBase.match(pattern.%s, R, %r) gives %r, expected %r" % (pname, text, got, want), m.loc(f))
    return r


def word_cls_rule(m, rid):
    r = RuleResult(rid, "WORDClsBase.match with a literal keyword, decided as a table: keyword case-blind and delimited, optional '::' only "
                        "where allowed and only with content, the rest handed to the child class")
    r.floor = 12
    f = m.method(m.key("WORDClsBase", UTILS), "match")
    isal = m.module_func(UTILS, "isalnum")
    if f is None or isal is None:
        r.error("WORDClsBase.match / utils.isalnum vanished")
        return r
    ev = PE.Evaluator({"re": RE_MODULE})
    ev.g["isalnum"] = lambda ch: PE.Evaluator({}).run_function(isal.node, [ch])
    c = ctor("N")
    cases = [
        (("PROGRAM", c, "PROGRAM foo"), {}, ("PROGRAM", Node("N", "foo"))),
        (("PROGRAM", c, "program   foo"), {}, ("PROGRAM", Node("N", "foo"))),
        (("PROGRAM", c, "programfoo"), {}, None),
        (("PROGRAM", c, "program_x"), {}, None),
        (("PROGRAM", c, "progra"), {}, None),
        (("PROGRAM", c, "xprogram foo"), {}, None),
        (("CYCLE", c, "cycle"), {}, ("CYCLE", None)),
        (("CYCLE", c, "cycle"), {"require_cls": True}, None),
        (("CYCLE", None, "cycle outer"), {}, None),
        (("IMPORT", c, "import :: a, b"), {"colons": True}, ("IMPORT", Node("N", "a, b"))),
        (("IMPORT", c, "import::a"), {"colons": True}, ("IMPORT", Node("N", "a"))),
        (("IMPORT", c, "import ::"), {"colons": True}, None),
        (("IMPORT", c, "import :: a"), {}, ("IMPORT", Node("N", ":: a"))),
        (("STOP", c, "stop(1)"), {}, ("STOP", Node("N", "(1)"))),
        (("PRIVATE", c, "  private x"), {}, ("PRIVATE", Node("N", "x"))),
    ]
    for args, kw, want in cases:
        r.instances += 1
        got = run(ev, f, list(args), kw)
        ok = (not isinstance(got, PE.PyRaise)) and got == want
        r.ob(ok, "WORDClsBase.match(%r, N, %r, %s) -> %r" % (args[0], args[2], kw, got))
        if not ok:
            r.fail("WORDClsBase|%s|%s|%s" % (args[0], args[2], sorted(kw)), "WORDClsBase.match(%r, N, %r%s) gives %r, expected %r"
                   % (args[0], args[2], "".join(", %s=%s" % kv for kv in sorted(kw.items())), got, want), m.loc(f))
    return r


def string_rules(m, rid):
    r = RuleResult(rid, "StringBase/STRINGBase/NumberBase/KeywordValueBase.match decided as tables: keywords are upper-cased, free text and kind "
                        "parameters keep their spelling, '=' splits at the first occurrence only")
    r.floor = 25
    pats = m.snap["patterns"]

    def rx(name):
        ent = pats.get(name)
        if ent is None:
            raise KeyError(name)
        return re.compile(ent["compiled_pattern"], ent["compiled_flags"])
    fs = {n: m.method(m.key(n, UTILS), "match") for n in ("StringBase", "STRINGBase", "NumberBase", "KeywordValueBase")}
    if any(v is None for v in fs.values()):
        r.error("a string engine vanished: %s" % [k for k, v in fs.items() if v is None])
        return r
    ev = PE.Evaluator({"re": RE_MODULE})
    # recursion: the engines call themselves by class name
    class Proxy(PE.Obj):
        pass
    for n, f in fs.items():
        ev.g[n] = PE.Obj({}, {})
    # pureeval resolves `X.match(...)` only on Obj fields: give each engine object a callable field
    for n, f in fs.items():
        ev.g[n].fields["match"] = (lambda ff: (lambda *a, **k: ev.run_function(ff.node, list(a), k)))(f)
    ev.g["InternalError"] = "InternalError"
    c = ctor("V")
    try:
        cases = [
            ("StringBase", ("abc", "abc"), {}, ("abc",)), ("StringBase", ("abc", "ABC"), {}, None), ("StringBase", ("abc", "abcd"), {}, None),
            ("StringBase", (["a", "b"], "b"), {}, ("b",)), ("StringBase", (rx("abs_name"), "My_Var"), {}, ("My_Var",)),
            ("StringBase", (rx("abs_name"), "1x"), {}, None),
            ("STRINGBase", ("CONTAINS", "contains"), {}, ("CONTAINS",)), ("STRINGBase", ("CONTAINS", "Contains"), {}, ("CONTAINS",)),
            ("STRINGBase", ("CONTAINS", "contain"), {}, None), ("STRINGBase", ("CONTAINS", "containsx"), {}, None),
            ("STRINGBase", (["PUBLIC", "PRIVATE"], "private"), {}, ("PRIVATE",)), ("STRINGBase", ("X", None), {}, None),
            ("STRINGBase", (rx("abs_intrinsic_type_name"), "logical"), {}, ("LOGICAL",)),
            ("STRINGBase", (rx("abs_intrinsic_type_name"), "logic"), {}, None),
            ("NumberBase", (rx("abs_int_literal_constant_named"), "12"), {}, ("12", None)),
            ("NumberBase", (rx("abs_int_literal_constant_named"), "12_8"), {}, ("12", "8")),
            ("NumberBase", (rx("abs_int_literal_constant_named"), "12_Long"), {}, ("12", "Long")),
            ("NumberBase", (rx("abs_int_literal_constant_named"), "1 2"), {}, ("12", None)),
            ("NumberBase", (rx("abs_int_literal_constant_named"), "12x"), {}, None),
            ("NumberBase", (rx("abs_real_literal_constant_named"), "1.0e-3_dp"), {}, ("1.0E-3", "dp")),
            ("NumberBase", (rx("abs_real_literal_constant_named"), "1.5d0"), {}, ("1.5D0", None)),
            ("KeywordValueBase", ("UNIT", c, "unit=6"), {"upper_lhs": True}, ("UNIT", Node("V", "6"))),
            ("KeywordValueBase", ("UNIT", c, "unit = 6"), {"upper_lhs": True}, ("UNIT", Node("V", "6"))),
            ("KeywordValueBase", ("UNIT", c, "6"), {"require_lhs": False}, (None, Node("V", "6"))),
            ("KeywordValueBase", ("UNIT", c, "6"), {}, None),
            ("KeywordValueBase", ("FMT", c, "fmt='(a=b)'"), {"upper_lhs": True}, ("FMT", Node("V", "'(a=b)'"))),
            ("KeywordValueBase", ("FMT", c, "unit=6"), {"upper_lhs": True}, None),
            ("KeywordValueBase", (ctor("K"), c, "a=b=c"), {}, (Node("K", "a"), Node("V", "b=c"))),
            ("KeywordValueBase", (ctor("K"), c, "a="), {}, None),
        ]
    except KeyError as err:
        r.error("pattern %s vanished" % err)
        return r
    for eng, args, kw, want in cases:
        r.instances += 1
        got = run(ev, fs[eng], list(args), kw)
        ok = (not isinstance(got, PE.PyRaise)) and got == want
        shown = tuple(a.pattern if hasattr(a, "pattern") else a for a in args)
        r.ob(ok, "%s.match%r %s -> %r" % (eng, shown[:1] + shown[-1:], kw or "", got))
        if not ok:
            r.fail("%s|%r|%s" % (eng, shown[-1], sorted(kw)), "%s.match(%s%s) gives %r, expected %r" % (
                eng, ", ".join(repr(a)[:30] for a in shown), "".join(", %s=%s" % kv for kv in sorted(kw.items())), got, want), m.loc(fs[eng]))
    return r


def pattern_split_rule(m, rid):
    r = RuleResult(rid, "Pattern.rsplit / Pattern.lsplit, decided as tables: the string is cut at the last / first operator occurrence and "
                        "the three pieces are returned unchanged apart from surrounding blanks")
    r.floor = 10
    pk = m.key("Pattern", "fparser.two.pattern_tools")
    fr, fl_ = m.method(pk, "rsplit"), m.method(pk, "lsplit")
    if fr is None or fl_ is None:
        r.error("Pattern.rsplit/lsplit vanished")
        return r
    pats = m.snap["patterns"]

    def pobj(name):
        ent = pats[name]
        # the engines are handed pattern.<name>.named(): the pattern wrapped in one (named) capture group
        rx = re.compile("(?P<op>%s)" % ent["pattern"], ent["flags"])
        full = re.compile(r"\A(?:" + ent["pattern"] + r")\Z", ent["flags"])
        o = PE.Obj({})
        o.fields["get_compiled"] = lambda: rx
        o.fields["__abs__"] = lambda: PE.Obj({"match": lambda s_: full.match(s_)})
        return o
    ev = PE.Evaluator({"re": RE_MODULE})
    cases = [
        ("rsplit", "add_op", "a + b - c", ("a + b", "-", "c")),
        ("rsplit", "add_op", "a+b", ("a", "+", "b")),
        ("rsplit", "add_op", "abc", None),
        ("rsplit", "mult_op", "a * b / c", ("a * b", "/", "c")),
        ("rsplit", "mult_op", "a ** b", None),
        ("rsplit", "and_op", "a .and. b .AND. c", ("a .and. b", ".AND.", "c")),
        ("rsplit", "defined_binary_op", "a .x. b", ("a", ".x.", "b")),
        ("rsplit", "defined_binary_op", "a .and. .not. b .x. c", ("a .and. .not. b", ".x.", "c")),
        ("rsplit", "defined_binary_op", ".true. .x. b", (".true.", ".x.", "b")),
        ("rsplit", "rel_op", "a <= b", ("a", "<=", "b")),
        ("rsplit", "concat_op", "a // b // c", ("a // b", "//", "c")),
        ("lsplit", "power_op", "a ** b ** c", ("a", "**", "b ** c")),
        ("lsplit", "power_op", "a * b", None),
    ]
    for meth, pname, text, want in cases:
        r.instances += 1
        if pname not in pats:
            r.error("pattern %s vanished" % pname)
            continue
        f = fr if meth == "rsplit" else fl_
        got = run(ev, f, [pobj(pname), text])
        if isinstance(got, list):
            got = tuple(got)
        ok = (not isinstance(got, PE.PyRaise)) and got == want
        r.ob(ok, "pattern.%s.%s(%r) -> %r" % (pname, meth, text, got))
        if not ok:
            r.fail("Pattern.%s|%s|%s" % (meth, pname, text), "pattern.%s.%s(%r) gives %r, expected %r" % (pname, meth, text, got, want), m.loc(f))
    return r


def binary_op_rule(m, rid):
    """BinaryOpBase.match as a table (operand classes are recording stubs that accept any text; the replace map is the identity on these
    strings): the engine cuts at the right operator occurrence and hands both sides on WHATEVER they look like -- the only reasons to refuse
    a split are an empty side or an excluded operator."""
    r = RuleResult(rid, "BinaryOpBase.match, decided as a table: lhs / operator / rhs are the pieces of the split, handed to the operand "
                        "classes unchanged; a split is refused only for an empty side or an excluded operator (operands that end in a dot, "
                        "such as .TRUE., are operands like any other)")
    r.floor = 20
    f = m.method(m.key("BinaryOpBase", UTILS), "match")
    pk = m.key("Pattern", "fparser.two.pattern_tools")
    fr, fl_ = m.method(pk, "rsplit"), m.method(pk, "lsplit")
    if f is None or fr is None or fl_ is None:
        r.error("BinaryOpBase.match / Pattern.rsplit / Pattern.lsplit vanished")
        return r
    pats = m.snap["patterns"]
    g = dict(PE.module_regexes(m, UTILS))
    g["string_replace_map"] = lambda s_, lower=False: (s_, lambda x: x)
    ev = PE.Evaluator(g)
    pev = PE.Evaluator(dict(PE.module_regexes(m, "fparser.two.pattern_tools")))

    def pobj(name):
        ent = pats[name]
        rx = re.compile("(?P<op>%s)" % ent["pattern"], ent["flags"])
        full = re.compile(r"\A(?:" + ent["pattern"] + r")\Z", ent["flags"])
        o = PE.Obj({})
        o.fields["get_compiled"] = lambda: rx
        o.fields["__abs__"] = lambda: PE.Obj({"match": lambda s_: full.match(s_)})
        o.fields["match"] = lambda s_: re.compile(ent["pattern"], ent["flags"]).match(s_)
        o.fields["rsplit"] = lambda s_: run(pev, fr, [o, s_])
        o.fields["lsplit"] = lambda s_: run(pev, fl_, [o, s_])
        return o
    L, R = ctor("L"), ctor("R")
    X = "non_defined_binary_op"
    cases = [
        # (operator, text, right, exclude, expected (lhs, op, rhs) or None)
        ("add_op", "a + b - c", True, None, ("a + b", "-", "c")),
        ("add_op", "a+b", True, None, ("a", "+", "b")),
        ("add_op", "-a + b", True, None, ("-a", "+", "b")),
        ("add_op", "+ b", True, None, None),
        ("add_op", "a +", True, None, None),
        ("mult_op", "a * b / c", True, None, ("a * b", "/", "c")),
        ("mult_op", "2. * x", True, None, ("2.", "*", "x")),
        ("power_op", "a ** b ** c", False, None, ("a", "**", "b ** c")),
        ("**", "a ** b ** c", False, None, ("a", "**", "b ** c")),
        ("//", "a // b // c", True, None, ("a // b", "//", "c")),
        ("concat_op", "a // b // c", True, None, ("a // b", "//", "c")),
        ("rel_op", "a .le. b", True, None, ("a", ".LE.", "b")),
        ("rel_op", "a <= b", True, None, ("a", "<=", "b")),
        ("rel_op", "1. == x", True, None, ("1.", "==", "x")),
        ("and_op", "a .and. b .AND. c", True, None, ("a .and. b", ".AND.", "c")),
        ("and_op", ".TRUE. .AND. a", True, None, (".TRUE.", ".AND.", "a")),
        ("and_op", "x .OR. .FALSE. .AND. y", True, None, ("x .OR. .FALSE.", ".AND.", "y")),
        ("or_op", "a .AND. .TRUE. .OR. b", True, None, ("a .AND. .TRUE.", ".OR.", "b")),
        ("or_op", ".false. .or. .true.", True, None, (".false.", ".OR.", ".true.")),
        ("equiv_op", ".FALSE. .EQV. b .NEQV. c", True, None, (".FALSE. .EQV. b", ".NEQV.", "c")),
        ("and_op", "a . and . b", True, None, ("a", ".AND.", "b")),
        ("defined_binary_op", "a .x. b", True, X, ("a", ".X.", "b")),
        ("defined_binary_op", ".TRUE. .x. a", True, X, (".TRUE.", ".X.", "a")),
        ("defined_binary_op", "a .and. b", True, X, None),
        ("defined_binary_op", "a .x. b .y. c", True, X, ("a .x. b", ".Y.", "c")),
        ("and_op", "abc", True, None, None),
        # an operand class that refuses its text makes the whole match fail (NoMatchError travels up): the engine does not look for
        # another place to split, which would ignore the level's operator exclusion
        ("defined_binary_op", "a .or. b .and. .inv. c", True, X, "raises NoMatchError"),
        ("defined_binary_op", ".not. a .eq. .inv. b", True, X, "raises NoMatchError"),
        ("and_op", "a .and. .not.", True, None, "raises NoMatchError"),
    ]

    def strict(tag):
        def make(text, *a, **k):
            t = text.strip()
            if re.search(r"[.]\s*[a-z]+\s*[.]$", t, re.I) and not re.search(r"[.](true|false)[.]$", t, re.I) or t[-1:] in "+-*/" or not t:
                raise PE.PyRaise("NoMatchError", "%s: %r" % (tag, text))
            return Node(tag, text)
        return make
    L, R = strict("L"), strict("R")
    for op, text, right, excl, want in cases:
        r.instances += 1
        if op in pats:
            opv = pobj(op)
        elif op.isidentifier():
            r.error("pattern %s vanished" % op)
            continue
        else:
            opv = op
        kw = {"right": right}
        if excl:
            kw["exclude_op_pattern"] = pobj(excl)
        got = run(ev, f, [L, opv, R, text], kw)
        if isinstance(got, PE.PyRaise):
            shown = "raises %s" % got.exc_type
            ok = shown == want
        elif got is None:
            ok, shown = want is None, None
        else:
            lhs, oper, rhs = got
            shown = (lhs.text if isinstance(lhs, Node) else lhs, oper, rhs.text if isinstance(rhs, Node) else rhs)
            ok = want is not None and shown == want and isinstance(lhs, Node) and lhs.tag == "L" and isinstance(rhs, Node) and rhs.tag == "R"
        r.ob(ok, "BinaryOpBase.match(L, %s, R, %r, right=%s) -> %r" % (op, text, right, shown))
        if not ok:
            r.fail("BinaryOpBase.match|%s|%s" % (op, text), "BinaryOpBase.match(lhs_cls, %s, rhs_cls, %r, right=%s%s) gives %r, expected %r: "
                   "the expression is grouped differently or not parsed at all"
                   % (op, text, right, ", exclude=%s" % excl if excl else "", shown, want), m.loc(f))
    return r


# ---------------------------------------------------------------------------------------------------------------
# hand-written list-statement matchers (splitting loops), decided as tables
def _norm(v):
    if isinstance(v, Node):
        return v.text
    if isinstance(v, (tuple, list)):
        return [_norm(x) for x in v]
    return v


LIST_STMT_TABLES = {
    "Data_Stmt": [
        ("data a / 1 /", ["a / 1 /"]),
        ("DATA a / 1 /, b / 3*0 /", ["a / 1 /", "b / 3*0 /"]),
        ("data a /1/ b /2/", ["a /1/", "b /2/"]),
        ("data a /1/, b /2/ , c /3/", ["a /1/", "b /2/", "c /3/"]),
        ("data a(1) /1/,b/2/", ["a(1) /1/", "b/2/"]),
        ("data a", None), ("data a / 1", None), ("dat a /1/", None), ("data a /1/ b", None), ("data a /1/ , b /2", None),
    ],
    "Namelist_Stmt": [
        ("namelist /g/ a, b", [["g", "a, b"]]),
        ("NAMELIST /g/ a, b /h/ c", [["g", "a, b"], ["h", "c"]]),
        ("namelist /g/ a, /h/ c", [["g", "a"], ["h", "c"]]),
        ("namelist / g / a", [["g", "a"]]),
        ("namelist g/ a", None), ("namelist /g/ a /h", None), ("namelist", None), ("namelis /g/ a", None),
    ],
    "Common_Stmt": [
        ("common a, b", [[[None, "a, b"]]]),
        ("COMMON /c/ a, b", [[["c", "a, b"]]]),
        ("common // a", [[[None, "a"]]]),
        ("common /c/ a /d/ b", [[["c", "a"], ["d", "b"]]]),
        ("common /c/ a, /d/ b", [[["c", "a"], ["d", "b"]]]),
        ("common a /d/ b", [[[None, "a"], ["d", "b"]]]),
        ("common /c/ a // b", [[["c", "a"], [None, "b"]]]),
        ("common /c/ a, b /d/ e, f // g", [[["c", "a, b"], ["d", "e, f"], [None, "g"]]]),
        ("commona", None), ("common /c", None), ("common /c/ /d/ b", None), ("common", None),
    ],
    "Dimension_Stmt": [
        ("dimension a(2)", [[["a", "2"]]]),
        ("DIMENSION :: a(2), b(n)", [[["a", "2"], ["b", "n"]]]),
        ("dimension a (2) , b( 3 )", [[["a", "2"], ["b", "3"]]]),
        ("dimension a", None), ("dimension a(2), b", None), ("dimensio a(2)", None), ("dimension a(2) b", None),
    ],
}


def list_stmt_rule(m, rid):
    r = RuleResult(rid, "the hand-written list-statement matchers (DATA, NAMELIST, COMMON, DIMENSION), decided as tables: every set / group / "
                        "block / declarator of the statement is handed to its class exactly once with exactly its text, with or without "
                        "the optional separating comma (strings on which the replace map is the identity)")
    r.floor = 35
    for cname, rows in LIST_STMT_TABLES.items():
        k = m.key(cname, F03)
        f = m.method(k, "match") if k else None
        if f is None:
            r.error("%s.match vanished" % cname)
            continue
        g = dict(PE.module_regexes(m, F03))
        g["string_replace_map"] = lambda s_, lower=False: (s_, lambda x: x)
        for n in ast.walk(f.node):
            if isinstance(n, ast.Call) and isinstance(n.func, ast.Name) and n.func.id not in g:
                kk = m.class_of_name(f, n.func.id)
                if kk:
                    g[n.func.id] = ctor(n.func.id)
        ev = PE.Evaluator(g)
        bad = []
        for text, want in rows:
            r.instances += 1
            got = run(ev, f, [text])
            shown = "raises %s" % got.exc_type if isinstance(got, PE.PyRaise) else _norm(got)
            ok = shown == want
            r.ob(ok, "%s.match(%r) -> %r" % (cname, text, shown) if r.obligations % 5 == 0 else None)
            if not ok:
                bad.append((text, shown, want))
        if bad:
            text, shown, want = bad[0]
            r.fail("%s.match|list-table" % cname, "%s.match(%r) hands on %r, expected %r (%d of %d rows disagree): a set/group of the statement "
                   "is lost, cut in the wrong place, or a valid statement is rejected" % (cname, text, shown, want, len(bad), len(rows)), m.loc(f))
    return r


def call_base_rule(m, rid):
    """CallBase.match as a table over strings on which the replace map is the identity (no nested group, literal or exponent): whatever is
    matched, the pieces handed to the two classes re-assemble -- with the brackets -- to the whole input, so no character (a surplus
    ')' ...) is dropped."""
    r = RuleResult(rid, "CallBase.match, decided as a table: `lhs ( [rhs] )` is cut at the last '(' and the final ')', and lhs + '(' + rhs + ')' "
                        "re-assembles to the whole text (a surplus bracket stays in a piece, where the operand class rejects it)")
    r.floor = 10
    f = m.method(m.key("CallBase", UTILS), "match")
    if f is None:
        r.error("CallBase.match vanished")
        return r
    ev = PE.Evaluator({"string_replace_map": lambda s_, lower=False: (s_, lambda x: x)})
    L, R = ctor("L"), ctor("R")
    cases = [
        ("f(a)", ("f", "a")), ("f()", ("f", None)), ("f( a, b )", ("f", "a, b")), ("f (a)", ("f", "a")), ("a(i)(j)", ("a(i)", "j")),
        ("f(a))", "reassemble"), ("f(a)b)", "reassemble"), ("f((a)", "reassemble"), ("f)(a)", "reassemble"), ("f(a)(", None),
        ("f(a", None), ("fa)", None), ("(a)", None), ("f", None), ("", None),
    ]
    for text, want in cases:
        r.instances += 1
        got = run(ev, f, [L, R, text])
        if isinstance(got, PE.PyRaise):
            ok, shown = False, "raises %s" % got.exc_type
        elif got is None:
            ok, shown = (want is None or want == "reassemble"), None
        else:
            lhs, rhs = got
            lt = lhs.text if isinstance(lhs, Node) else lhs
            rt = rhs.text if isinstance(rhs, Node) else rhs
            shown = (lt, rt)
            whole = "%s(%s)" % (lt, rt or "")
            same = whole.replace(" ", "") == text.replace(" ", "")
            if want == "reassemble":
                ok = same
            elif want is None:
                ok = False
            else:
                ok = same and (lt.strip(), (rt or "").strip() or None) == (want[0], want[1])
        r.ob(ok, "CallBase.match(L, R, %r) -> %r" % (text, shown))
        if not ok:
            r.fail("CallBase|%s" % text, "CallBase.match(L, R, %r) gives %r: %s" % (
                text, shown, "the pieces do not re-assemble to the input -- a character of the statement is dropped, so text with a surplus "
                "bracket is accepted" if want == "reassemble" or want is not None else "text without the `lhs(...)` shape is accepted"), m.loc(f))
    return r


def separator_rule(m, rid):
    r = RuleResult(rid, "SeparatorBase.match, decided as a table: `[lhs] : [rhs]` is cut at the first ':' and each side reaches its class with "
                        "the blanks around the ':' removed (the printer writes `lhs : rhs`, so a blank left on a piece breaks the re-parse)")
    r.floor = 12
    f = m.method(m.key("SeparatorBase", UTILS), "match")
    if f is None:
        r.error("SeparatorBase.match vanished")
        return r
    ev = PE.Evaluator({"string_replace_map": lambda s_, lower=False: (s_, lambda x: x)})
    L, R = ctor("L"), ctor("R")
    cases = [
        ("a:b", {}, ("a", "b")), ("a : b", {}, ("a", "b")), ("a :  - 1", {}, ("a", "- 1")), ("- 9 : - 1", {}, ("- 9", "- 1")),
        (":b", {}, (None, "b")), ("a:", {}, ("a", None)), (": - 10", {}, (None, "- 10")), ("a : b : c", {}, ("a", "b : c")),
        ("ab", {}, None), ("", {}, None), (":b", {"require_lhs": True}, None), ("a :", {"require_rhs": True}, None),
        # a rule that has no class for one side (`lower :` of an assumed-shape spec, `: upper`) refuses text on that side
        ("a:b", {"_classes": ("L", None)}, None), ("a:b", {"_classes": (None, "R")}, None),
        ("a:", {"_classes": ("L", None)}, ("a", None)), (":b", {"_classes": (None, "R")}, (None, "b")),
        ("1 : n", {"_classes": ("L", None)}, None),
    ]
    for text, kw, want in cases:
        r.instances += 1
        kw = dict(kw)
        cl = kw.pop("_classes", ("L", "R"))
        got = run(ev, f, [L if cl[0] else None, R if cl[1] else None, text], kw)
        if isinstance(got, PE.PyRaise):
            ok, shown = False, "raises %s" % got.exc_type
        elif got is None:
            ok, shown = want is None, None
        else:
            shown = tuple(x.text if isinstance(x, Node) else x for x in got)
            ok = want is not None and shown == want
        r.ob(ok, "SeparatorBase.match(L, R, %r%s) -> %r" % (text, ", %s" % kw if kw else "", shown))
        if not ok:
            r.fail("SeparatorBase|%s" % text, "SeparatorBase.match(L, R, %r%s) hands %r to the operand classes, expected %r: %s" % (
                text, ", %s" % kw if kw else "", shown, want,
                "a blank stays on a piece (`CASE (- 9 : - 1)`, which is what the printer emits, is then rejected)" if want and shown and
                any(isinstance(x, str) and x != x.strip() for x in shown) else "the cut is not at the first ':'"), m.loc(f))
    return r


def keyword_value_rule(m, rid):
    r = RuleResult(rid, "KeywordValueBase.match, decided as a table: `[keyword =] value` is cut at the FIRST '=' only, the keyword is compared "
                        "(case-blind where asked), an unknown keyword makes the whole text the value when the keyword is optional")
    r.floor = 8
    f = m.method(m.key("KeywordValueBase", UTILS), "match")
    if f is None:
        r.error("KeywordValueBase.match vanished")
        return r
    ev = PE.Evaluator({"re": RE_MODULE})
    ev.g["KeywordValueBase"] = PE.Obj({"match": lambda *a, **k: ev.run_function(f.node, list(a), k)})
    L, R = ctor("L"), ctor("R")

    def show(got):
        if got is None or isinstance(got, PE.PyRaise):
            return got
        return tuple(x.text if isinstance(x, Node) else x for x in got)
    cases = [
        (("UNIT", R, "UNIT=6"), {}, ("UNIT", "6")),
        (("UNIT", R, "unit = 6"), {"upper_lhs": True}, ("UNIT", "6")),
        (("UNIT", R, "unit = 6"), {}, None),
        (("UNIT", R, "6"), {"require_lhs": False}, (None, "6")),
        (("UNIT", R, "6"), {}, None),
        (("FMT", R, "fmt='(a=b)'"), {"upper_lhs": True}, ("FMT", "'(a=b)'")),
        (("FMT", R, "x == y"), {"require_lhs": False, "upper_lhs": True}, (None, "x == y")),
        ((L, R, "a = b"), {}, ("a", "b")),
        ((L, R, " a  =  b = c "), {}, ("a", "b = c")),
        ((["A", "B"], R, "b = 1"), {"upper_lhs": True}, ("B", "1")),
        (("UNIT", R, "unit ="), {"upper_lhs": True}, None),
    ]
    for args, kw, want in cases:
        r.instances += 1
        got = show(run(ev, f, list(args), kw))
        ok = got == want
        desc = "KeywordValueBase.match(%s, R, %r%s)" % (args[0] if isinstance(args[0], (str, list)) else "L", args[2], ", %s" % kw if kw else "")
        r.ob(ok, "%s -> %r" % (desc, got))
        if not ok:
            r.fail("KeywordValueBase|%s|%s" % (args[2], sorted(kw)), "%s gives %r, expected %r" % (desc, got, want), m.loc(f))
    return r


def sequence_rule(m, rid):
    r = RuleResult(rid, "SequenceBase.match, decided as a table: the text is cut at every top-level separator, every piece (stripped) reaches the "
                        "element class in order, and the pieces re-assemble to the text")
    r.floor = 6
    f = m.method(m.key("SequenceBase", UTILS), "match")
    if f is None:
        r.error("SequenceBase.match vanished")
        return r
    ev = PE.Evaluator({"string_replace_map": lambda s_, lower=False: (s_, lambda x: x),
                       "InternalError": lambda *a: None})
    X = ctor("X")
    cases = [
        ((",", X, "a, b"), (",", ("a", "b"))), ((",", X, "a"), (",", ("a",))), ((",", X, " a ,b , c "), (",", ("a", "b", "c"))),
        ((",", X, "a,,b"), (",", ("a", "", "b"))), (("%", X, "a % b%c"), ("%", ("a", "b", "c"))), ((",", X, "a b, c"), (",", ("a b", "c"))),
        (("//", X, "a // b"), ("//", ("a", "b"))),
    ]
    for args, want in cases:
        r.instances += 1
        got = run(ev, f, list(args))
        shown = got
        if isinstance(got, tuple) and len(got) == 2 and isinstance(got[1], (tuple, list)):
            shown = (got[0], tuple(x.text if isinstance(x, Node) else x for x in got[1]))
        ok = shown == want
        r.ob(ok, "SequenceBase.match(%r, X, %r) -> %r" % (args[0], args[2], shown))
        if not ok:
            r.fail("SequenceBase|%s|%s" % (args[0], args[2]), "SequenceBase.match(%r, X, %r) gives %r, expected %r (every piece, in order, stripped)"
                   % (args[0], args[2], shown, want), m.loc(f))
    return r


# ---------------------------------------------------------------------------------------------------------------
# the string engines use pattern.match (a PREFIX match) and keep the whole text: the pattern must be a whole-string pattern
def whole_string_pattern_rule(m, rid):
    r = RuleResult(rid, "every Pattern handed to StringBase/STRINGBase/NumberBase.match matches whole strings only (the engines test "
                        "`pattern.match(text)`, a prefix match, and keep the whole text): with a pattern that is not anchored at its end, "
                        "trailing text -- a surplus ')' -- is accepted and stored")
    r.floor = 15
    pats = m.snap["patterns"]
    for (path, q), f in sorted(m.funcs.items()):
        if not f.module.startswith("fparser.two"):
            continue
        for c in A.calls(f.node):
            if A.text(c.func) not in ("StringBase.match", "STRINGBase.match", "NumberBase.match") or not c.args:
                continue
            a0 = c.args[0]
            cands = []
            for x in (a0.elts if isinstance(a0, (ast.List, ast.Tuple)) else [a0]):
                d = A.dotted(x) or ""
                wrapped = isinstance(x, ast.Call) and A.text(x.func) == "abs"
                if wrapped:
                    d = A.dotted(x.args[0]) or ""
                if d.startswith("pattern.") and d.split(".", 1)[1] in pats:
                    cands.append((d.split(".", 1)[1], wrapped))
            for name, wrapped in cands:
                r.instances += 1
                ent = pats[name]
                ptxt = ent["pattern"]
                anchored = wrapped or ptxt.endswith(r"\Z") or ptxt.endswith("$")
                ok = anchored
                witness = None
                if not anchored:
                    # semantic test: a matching word followed by ')' is still "matched" although the full text is not in the language
                    rx = re.compile(ent["compiled_pattern"], ent["compiled_flags"])
                    full = re.compile(r"\A(?:" + ptxt + r")\Z", ent["flags"])
                    from sa import regexlang
                    words = regexlang.finite_language(ptxt, ent["flags"]) or []
                    for w in sorted(words, key=len)[:40]:
                        if rx.match(w + ")") and not full.match(w + ")"):
                            witness = w + ")"
                            break
                    ok = witness is None and bool(words)
                r.ob(ok, "%s: pattern.%s%s" % (q, name, " (abs)" if wrapped else ""))
                if not ok:
                    r.fail("%s|unanchored|%s" % (q, name), "%s hands pattern.%s to %s: the pattern is not anchored at its end, so %s is accepted "
                           "and kept as the node's text (e.g. `public :: operator(*))` parses, with a surplus parenthesis)"
                           % (q, name, A.text(c.func), "%r" % witness if witness else "text with trailing characters"), m.loc(f, c))
    return r
