"""A tiny evaluator for *pure* string predicates taken from the source as AST (constant folding over enumerated
arguments).  It never imports or calls repository code: it interprets a restricted expression/statement language
(str/int/bool/None/tuple/list values, subscripts and slices, comparisons, and/or/not, a white-list of str methods,
len/int/min/max/range, module-level compiled regexes through Python's `re` on their literal pattern).  Anything
else raises Unsupported, which a rule turns into an ANALYSIS-ERROR (never a verdict)."""
import ast
import re


def _same_object(a, b):
    """identity of interpreted values: a stand-in that represents ONE object of the interpreted program (a class) may exist
    several times in the evaluator; it says so through `same_object`"""
    if a is b:
        return True
    f = getattr(a, "same_object", None)
    return bool(f is not None and f(b))


class Unsupported(Exception):
    pass


class PyRaise(Exception):
    """The interpreted code would raise exc_type."""

    def __init__(self, exc_type, msg="", value=None):
        Exception.__init__(self, "%s: %s" % (exc_type, msg))
        self.exc_type = exc_type
        self.msg = msg
        self.value = value          # the exception object of the model, when there is one


class ExcValue:
    """what `except X as name` binds: str() gives the message, like an exception object"""

    def __init__(self, err):
        self.err = err
        self.args = (err.msg,)

    def __str__(self):
        return str(self.err.msg)

    def __repr__(self):
        return "%s(%r)" % (self.err.exc_type, self.err.msg)


class _Return(Exception):
    def __init__(self, value):
        self.value = value


class _Break(Exception):
    pass


class _Continue(Exception):
    pass


class Obj:
    """A record standing for an object: plain fields plus properties given as FunctionDef ASTs (interpreted on demand)."""

    def __init__(self, fields, props=None):
        self.fields = dict(fields)
        self.props = dict(props or {})

    def get(self, ev, name):
        if name in self.fields:
            return self.fields[name]
        if name in self.props:
            return ev.run_function(self.props[name], [self])
        raise Unsupported("attribute %s" % name)


import operator as _op
BIN_OPS = {ast.Add: _op.add, ast.Sub: _op.sub, ast.Mult: _op.mul, ast.Mod: _op.mod, ast.FloorDiv: _op.floordiv, ast.Div: _op.truediv,
           ast.Pow: _op.pow, ast.BitOr: _op.or_, ast.BitAnd: _op.and_, ast.BitXor: _op.xor, ast.LShift: _op.lshift, ast.RShift: _op.rshift}
NOT_EXCEPTIONS = {"SystemExit", "KeyboardInterrupt", "GeneratorExit"}
STR_METHODS = {"lower", "upper", "strip", "lstrip", "rstrip", "startswith", "endswith", "find", "rfind", "replace", "rindex", "partition",
               "rpartition", "isidentifier", "isupper", "islower", "zfill", "ljust", "rjust", "center",
               "isdigit", "isalpha", "isalnum", "isspace", "split", "rsplit", "join", "count", "index", "expandtabs",
               "splitlines", "title", "format", "casefold", "capitalize", "swapcase", "removeprefix", "removesuffix", "isnumeric",
               "isdecimal", "isprintable", "istitle", "translate", "format_map", "encode"}
LIST_METHODS = {"append", "pop", "insert", "reverse", "index", "count", "extend", "remove", "sort", "clear", "copy"}
MATCH_METHODS = {"group", "start", "end", "groups", "groupdict", "span"}



class HostSuper(Obj):
    """`super()` inside an interpreted method of a host_subclass: the methods of the builtin base, bound to the instance"""

    def __init__(self, base, obj):
        Obj.__init__(self, {})
        self.base, self.obj = base, obj

    def get(self, ev, name):
        f = getattr(self.base, name, None)
        if f is None:
            raise PyRaise("AttributeError", "'super' object has no attribute %r" % name)
        obj = self.obj
        return lambda *a, **k: f(obj, *a, **k)


def host_subclass(ev, classdef, base, name=None):
    """A host subclass of a builtin container (`dict`, `list`) for a class of the analysed program that derives from it: instances
    behave like the builtin in every host operation (the evaluator's own `in`, subscripts, iteration) while every method the class
    defines -- __init__, __setitem__, __call__, ordinary methods -- is interpreted from its source, with `super()` bound to the builtin."""
    import ast as _ast
    ns = {}
    methods = {}

    def make(fdef):
        def method(self_, *a, **k):
            cls = type(self_)
            env0 = {"super": lambda *x: HostSuper(base, self_), "__class__": cls}
            return ev.run_function(fdef, [self_] + list(a), k, env0)
        method.__name__ = fdef.name
        return method
    for b in classdef.body:
        if isinstance(b, _ast.FunctionDef):
            if b.decorator_list:
                raise Unsupported("decorated method %s of a %s subclass" % (b.name, base.__name__))
            ns[b.name] = make(b)
            methods[b.name] = b
    ns["interp_methods"] = methods
    return type(name or classdef.name, (base,), ns)

class Evaluator:
    def __init__(self, globals_=None, max_steps=200000):
        self.g = dict(globals_ or {})
        self.steps = 0
        self.max_steps = max_steps

    def tick(self):
        self.steps += 1
        if self.steps > self.max_steps:
            raise Unsupported("step budget exceeded")

    # ------------------------------------------------------------------ expressions
    def ev(self, node, env):
        self.tick()
        if isinstance(node, ast.Constant):
            return node.value
        if isinstance(node, ast.Name):
            if node.id in env:
                return env[node.id]
            if node.id in env.get("$locals", ()):
                raise PyRaise("UnboundLocalError", "cannot access local variable '%s' where it is not associated with a value" % node.id)
            if node.id in self.g:
                return self.g[node.id]
            if node.id in ("True", "False", "None"):
                return {"True": True, "False": False, "None": None}[node.id]
            if node.id in ("tuple", "list", "str", "int", "dict", "bool", "set"):
                return {"tuple": tuple, "list": list, "str": str, "int": int, "dict": dict, "bool": bool, "set": set}[node.id]
            raise Unsupported("name %s" % node.id)
        if isinstance(node, ast.Lambda):
            return self._closure(node, env)
        if isinstance(node, ast.BoolOp):
            if isinstance(node.op, ast.And):
                v = True
                for x in node.values:
                    v = self.ev(x, env)
                    if not v:
                        return v
                return v
            v = False
            for x in node.values:
                v = self.ev(x, env)
                if v:
                    return v
            return v
        if isinstance(node, ast.UnaryOp):
            v = self.ev(node.operand, env)
            if isinstance(node.op, ast.Not):
                return not v
            if isinstance(node.op, ast.USub):
                return -v
            if isinstance(node.op, ast.UAdd):
                return +v
            if isinstance(node.op, ast.Invert) and isinstance(v, int):
                return ~v
            raise Unsupported("unary op")
        if isinstance(node, ast.BinOp):
            a, b = self.ev(node.left, env), self.ev(node.right, env)
            fn = BIN_OPS.get(type(node.op))
            if fn is None:
                raise Unsupported("binop")
            try:
                return fn(a, b)
            except TypeError as err:
                raise PyRaise("TypeError", str(err))
            except ZeroDivisionError as err:
                raise PyRaise("ZeroDivisionError", str(err))
            except ValueError as err:
                raise PyRaise("ValueError", str(err))
        if isinstance(node, ast.Compare):
            left = self.ev(node.left, env)
            for op, c in zip(node.ops, node.comparators):
                right = self.ev(c, env)
                try:
                    if isinstance(op, ast.Eq):
                        ok = left == right
                    elif isinstance(op, ast.NotEq):
                        ok = left != right
                    elif isinstance(op, ast.Lt):
                        ok = left < right
                    elif isinstance(op, ast.LtE):
                        ok = left <= right
                    elif isinstance(op, ast.Gt):
                        ok = left > right
                    elif isinstance(op, ast.GtE):
                        ok = left >= right
                    elif isinstance(op, ast.In):
                        ok = left in right
                    elif isinstance(op, ast.NotIn):
                        ok = left not in right
                    elif isinstance(op, ast.Is):
                        ok = _same_object(left, right)
                    elif isinstance(op, ast.IsNot):
                        ok = not _same_object(left, right)
                    else:
                        raise Unsupported("compare op")
                except TypeError as err:
                    raise PyRaise("TypeError", str(err))
                if not ok:
                    return False
                left = right
            return True
        if isinstance(node, ast.Subscript):
            v = self.ev(node.value, env)
            try:
                if isinstance(node.slice, ast.Slice):
                    lo = self.ev(node.slice.lower, env) if node.slice.lower else None
                    hi = self.ev(node.slice.upper, env) if node.slice.upper else None
                    st = self.ev(node.slice.step, env) if node.slice.step else None
                    return v[lo:hi:st]
                return v[self.ev(node.slice, env)]
            except IndexError as err:
                raise PyRaise("IndexError", str(err))
            except KeyError as err:
                raise PyRaise("KeyError", str(err))
            except TypeError as err:
                raise PyRaise("TypeError", str(err))
        if isinstance(node, (ast.Tuple, ast.List)):
            out = []
            for e in node.elts:
                if isinstance(e, ast.Starred):
                    out.extend(list(self.ev(e.value, env)))
                else:
                    out.append(self.ev(e, env))
            return tuple(out) if isinstance(node, ast.Tuple) else out
        if isinstance(node, ast.NamedExpr):
            v = self.ev(node.value, env)
            self.assign(node.target, v, env)
            return v
        if isinstance(node, ast.Yield):
            if "$yield" not in env:
                raise Unsupported("yield outside a generator body")
            env["$yield"].append(self.ev(node.value, env) if node.value is not None else None)
            return None
        if isinstance(node, ast.YieldFrom):
            if "$yield" not in env:
                raise Unsupported("yield outside a generator body")
            env["$yield"].extend(list(self.ev(node.value, env)))
            return None
        if isinstance(node, ast.Dict) and all(k_ is not None for k_ in node.keys):
            return {self.ev(k_, env): self.ev(v_, env) for k_, v_ in zip(node.keys, node.values)}
        if isinstance(node, ast.Set):
            return {self.ev(e, env) for e in node.elts}
        if isinstance(node, ast.IfExp):
            return self.ev(node.body, env) if self.ev(node.test, env) else self.ev(node.orelse, env)
        if isinstance(node, ast.JoinedStr):
            out = []
            for v in node.values:
                if isinstance(v, ast.Constant):
                    out.append(v.value)
                elif isinstance(v, ast.FormattedValue) and v.format_spec is None and v.conversion == -1:
                    out.append(str(self.ev(v.value, env)))
                else:
                    raise Unsupported("f-string format")
            return "".join(out)
        if isinstance(node, ast.SetComp):
            return set(self.ev(ast.ListComp(elt=node.elt, generators=node.generators), env))
        if isinstance(node, ast.DictComp) and len(node.generators) == 1:
            g = node.generators[0]
            out = {}
            for v in self.ev(g.iter, env):
                env2 = dict(env)
                self.assign(g.target, v, env2)
                if all(self.ev(c, env2) for c in g.ifs):
                    out[self.ev(node.key, env2)] = self.ev(node.value, env2)
            return out
        if isinstance(node, (ast.GeneratorExp, ast.ListComp)) and not any(g.is_async for g in node.generators):
            out = []

            def loop(k, env_k):
                if k == len(node.generators):
                    out.append(self.ev(node.elt, env_k))
                    return
                g = node.generators[k]
                for v in self.ev(g.iter, env_k):
                    env2 = dict(env_k)
                    self.assign(g.target, v, env2)
                    if all(self.ev(c, env2) for c in g.ifs):
                        loop(k + 1, env2)
            loop(0, env)
            return out
        if isinstance(node, ast.Call):
            return self.call(node, env)
        if isinstance(node, ast.Attribute):
            v = self.ev(node.value, env)
            if isinstance(v, Obj):
                return v.get(self, node.attr)
            if hasattr(type(v), "interp_methods"):
                # an instance of a dict/list subclass of the analysed program whose methods are interpreted (host_subclass)
                if node.attr in v.__dict__:
                    return v.__dict__[node.attr]
                if node.attr in type(v).interp_methods:
                    return getattr(v, node.attr)
            if isinstance(v, list) and node.attr in LIST_METHODS:
                return getattr(v, node.attr)         # `append = items.append`
            if isinstance(v, str) and node.attr in STR_METHODS:
                return getattr(v, node.attr)
            if isinstance(v, type) and node.attr == "__name__":
                return v.__name__
            if isinstance(v, dict) and node.attr in ("get", "keys", "values", "items", "update", "setdefault", "pop"):
                return getattr(v, node.attr)
            if isinstance(v, (set, frozenset)) and node.attr in ("add", "update", "discard", "union"):
                return getattr(v, node.attr)
            if isinstance(v, tuple) and hasattr(type(v), "_fields") and node.attr in type(v)._fields:
                return getattr(v, node.attr)               # a namedtuple field
            if isinstance(v, re.Match) and node.attr in ("string", "pos", "endpos", "lastgroup", "lastindex", "re"):
                return getattr(v, node.attr)
            if isinstance(v, re.Pattern) and node.attr in ("pattern", "flags", "groups", "groupindex"):
                return getattr(v, node.attr)
            raise Unsupported("attribute %s" % node.attr)
        raise Unsupported(type(node).__name__)

    def call(self, node, env):
        fn = node.func
        args = []
        for a in node.args:
            if isinstance(a, ast.Starred):
                args.extend(list(self.ev(a.value, env)))
            else:
                args.append(self.ev(a, env))
        kw = {}
        for k in node.keywords:
            if k.arg is None:
                kw.update(self.ev(k.value, env))
            else:
                kw[k.arg] = self.ev(k.value, env)
        if isinstance(fn, ast.Name):
            name = fn.id
            if name in env and callable(env[name]):
                return env[name](*args, **kw)
            if name in env and env[name] is None:
                raise PyRaise("TypeError", "'NoneType' object is not callable")
            if name in self.g and callable(self.g[name]):
                return self.g[name](*args, **kw)
            if name == "len":
                return len(args[0])
            if name == "abs":
                if isinstance(args[0], Obj):
                    return args[0].get(self, "__abs__")()
                return abs(args[0])
            if name == "int":
                if args and isinstance(args[0], Obj):
                    return args[0].get(self, "__int__")()
                try:
                    return int(*args)
                except ValueError as err:
                    raise PyRaise("ValueError", str(err))
                except TypeError as err:
                    raise PyRaise("TypeError", str(err))
            if name in ("set", "dict", "frozenset", "zip", "sum"):
                return {"set": set, "dict": dict, "frozenset": frozenset, "zip": lambda *xs: list(zip(*xs)), "sum": sum}[name](*args, **kw)
            if name in ("ord", "chr", "divmod", "round", "callable", "float", "hex", "bin", "oct", "format"):
                try:
                    return {"ord": ord, "chr": chr, "divmod": divmod, "round": round, "callable": callable, "float": float, "hex": hex,
                            "bin": bin, "oct": oct, "format": format}[name](*args, **kw)
                except (TypeError, ValueError) as err:
                    raise PyRaise(type(err).__name__, str(err))
            if name == "filter":
                return [x for x in args[1] if (args[0](x) if args[0] is not None else x)]
            if name == "map":
                return [args[0](*t) for t in zip(*args[1:])]
            if name == "iter":
                return iter(args[0])
            if name == "next":
                try:
                    return next(*args)
                except StopIteration:
                    raise PyRaise("StopIteration")
            if name == "print":
                return None
            if name in ("min", "max", "range", "str", "bool", "tuple", "list", "reversed", "enumerate", "isinstance", "any", "all", "sorted", "repr"):
                if name == "isinstance":
                    t = args[1]
                    ts = t if isinstance(t, tuple) else (t,)
                    if all(x in (tuple, list, str, int, dict, bool, set) or (isinstance(x, type) and x in self.g.values()) for x in ts):
                        return isinstance(args[0], ts)
                    raise Unsupported("isinstance on a non-builtin type")
                return {"min": min, "max": max, "range": range, "str": str, "bool": bool, "tuple": tuple, "list": list,
                        "reversed": lambda x: list(reversed(x)), "enumerate": lambda x: list(enumerate(x)),
                        "any": any, "all": all, "sorted": sorted, "repr": repr}[name](*args)
            raise Unsupported("call %s" % name)
        if isinstance(fn, ast.Attribute):
            recv = self.ev(fn.value, env)
            m = fn.attr
            if isinstance(recv, Obj):
                target = recv.get(self, m)
                if callable(target):
                    return target(*args, **kw)
                raise Unsupported("attribute %s of a record is not callable" % m)
            if hasattr(type(recv), "interp_methods"):
                if m in recv.__dict__ and callable(recv.__dict__[m]):
                    return recv.__dict__[m](*args, **kw)
                if m in type(recv).interp_methods:
                    return getattr(recv, m)(*args, **kw)
            if isinstance(recv, str) and m in STR_METHODS:
                try:
                    return getattr(recv, m)(*args, **kw)
                except ValueError as err:
                    raise PyRaise("ValueError", str(err))
            if isinstance(recv, list) and m in LIST_METHODS:
                try:
                    return getattr(recv, m)(*args, **kw)
                except IndexError as err:
                    raise PyRaise("IndexError", str(err))
                except ValueError as err:
                    raise PyRaise("ValueError", str(err))
            if isinstance(recv, re.Pattern) and m in ("match", "search", "fullmatch", "findall", "split", "sub", "finditer"):
                res_ = getattr(recv, m)(*args, **kw)
                return list(res_) if m == "finditer" else res_
            if isinstance(recv, re.Match) and m in MATCH_METHODS:
                try:
                    return getattr(recv, m)(*args)
                except IndexError as err:
                    raise PyRaise("IndexError", str(err))
            if isinstance(recv, dict) and m in ("get", "keys", "values", "items", "update", "setdefault", "pop", "copy", "clear", "popitem"):
                try:
                    return getattr(recv, m)(*args, **kw)
                except KeyError as err:
                    raise PyRaise("KeyError", str(err))
            if isinstance(recv, (set, frozenset)) and m in ("union", "add", "update", "intersection", "difference", "discard", "remove", "pop", "copy",
                                                             "clear", "issubset", "issuperset", "isdisjoint", "symmetric_difference",
                                                             "intersection_update", "difference_update"):
                try:
                    return getattr(recv, m)(*args)
                except KeyError as err:
                    raise PyRaise("KeyError", str(err))
            if isinstance(recv, tuple) and m in ("index", "count"):
                return getattr(recv, m)(*args)
            if recv is dict and m == "fromkeys":
                return dict.fromkeys(*args)
            if recv is str and m in STR_METHODS and args and isinstance(args[0], str):
                return getattr(str, m)(*args, **kw)
            if recv is None:
                raise PyRaise("AttributeError", "None.%s" % m)
            if isinstance(recv, (str, int)) and m in ("match", "search"):
                raise PyRaise("AttributeError", "%s.%s" % (type(recv).__name__, m))
            raise Unsupported("method %s on %s" % (m, type(recv).__name__))
        # any other callee expression (`cls.alloc_opt_list()(text)`, `table[k](x)`): evaluate it, call the result
        callee = self.ev(fn, env)
        if callable(callee):
            return callee(*args, **kw)
        raise Unsupported("call form")

    # ------------------------------------------------------------------ statements
    def bind_params(self, funcdef, args, kwargs, env, default_env):
        a_ = funcdef.args
        params = [a.arg for a in a_.posonlyargs + a_.args]
        defaults = a_.defaults
        for p, d in zip(params[len(params) - len(defaults):], defaults):
            env[p] = self.ev(d, default_env)
        for p, a in zip(params, args):
            env[p] = a
        if len(args) > len(params):
            if a_.vararg is None:
                raise PyRaise("TypeError", "too many positional arguments")
            env[a_.vararg.arg] = tuple(args[len(params):])
        elif a_.vararg is not None:
            env[a_.vararg.arg] = ()
        extra = {}
        known = set(params) | {k.arg for k in a_.kwonlyargs}
        for k, v in (kwargs or {}).items():
            if k in known or a_.kwarg is None:
                env[k] = v
            else:
                extra[k] = v
        if a_.kwarg is not None:
            env[a_.kwarg.arg] = extra
        for k_, d in zip(a_.kwonlyargs, a_.kw_defaults):
            if k_.arg not in env and d is not None:
                env[k_.arg] = self.ev(d, default_env)
        missing = [p for p in params + [k.arg for k in a_.kwonlyargs] if p not in env]
        if missing:
            raise Unsupported("missing args %s" % missing)

    def run_body(self, funcdef, env):
        """the body of a def: a generator function is run to its end and hands back the values it yielded (eagerly: values are not
        produced on demand, which only matters for code that interleaves side effects with consumption)"""
        env["$locals"] = local_names(funcdef)
        if is_generator(funcdef):
            env["$yield"] = []
            try:
                self.block(funcdef.body, env)
            except _Return:
                pass
            return iter(env["$yield"])
        try:
            self.block(funcdef.body, env)
        except _Return as r:
            return r.value
        return None

    def run_function(self, funcdef, args, kwargs=None, env0=None):
        """Interpret a FunctionDef on concrete arguments; returns its value (or raises PyRaise/Unsupported).  `env0`: names visible
        in the body besides the parameters (e.g. `super` / `__class__` of a method)."""
        env = dict(env0) if env0 else {}
        self.bind_params(funcdef, args, kwargs, env, {})
        return self.run_body(funcdef, env)

    def _closure(self, funcdef, outer):
        def call(*args, **kwargs):
            env = dict(outer)
            self.bind_params(funcdef, list(args), kwargs, env, outer)
            if isinstance(funcdef, ast.Lambda):
                return self.ev(funcdef.body, env)
            env["$outer"] = outer
            return self.run_body(funcdef, env)
        return call

    def block(self, stmts, env):
        for s in stmts:
            self.stmt(s, env)

    def assign(self, target, value, env):
        if isinstance(target, ast.Name):
            env[target.id] = value
            if target.id in env.get("$nonlocal", ()):
                o = env.get("$outer")
                while o is not None:
                    if target.id in o:
                        o[target.id] = value
                        break
                    o = o.get("$outer")
            if target.id in env.get("$global", ()):
                self.g[target.id] = value
        elif isinstance(target, (ast.Tuple, ast.List)):
            vals = list(value)
            stars = [i for i, t in enumerate(target.elts) if isinstance(t, ast.Starred)]
            if stars:
                i = stars[0]
                after = len(target.elts) - i - 1
                if len(vals) < len(target.elts) - 1:
                    raise PyRaise("ValueError", "unpack")
                for t, v in zip(target.elts[:i], vals[:i]):
                    self.assign(t, v, env)
                self.assign(target.elts[i].value, vals[i:len(vals) - after], env)
                for t, v in zip(target.elts[i + 1:], vals[len(vals) - after:]):
                    self.assign(t, v, env)
                return
            if len(vals) != len(target.elts):
                raise PyRaise("ValueError", "unpack")
            for t, v in zip(target.elts, vals):
                self.assign(t, v, env)
        elif isinstance(target, ast.Subscript):
            base = self.ev(target.value, env)
            if isinstance(base, (list, dict)) and not isinstance(target.slice, ast.Slice):
                try:
                    base[self.ev(target.slice, env)] = value       # `items[idx] = ...` on a local list/dict
                except IndexError as err:
                    raise PyRaise("IndexError", str(err))
            elif isinstance(base, list) and isinstance(target.slice, ast.Slice):
                lo = self.ev(target.slice.lower, env) if target.slice.lower else None
                hi = self.ev(target.slice.upper, env) if target.slice.upper else None
                st = self.ev(target.slice.step, env) if target.slice.step else None
                base[lo:hi:st] = value
            elif hasattr(base, "__setitem__") and isinstance(base, Obj):
                base[self.ev(target.slice, env)] = value
            else:
                raise Unsupported("assignment target")
        elif isinstance(target, ast.Attribute):
            base = self.ev(target.value, env)
            if isinstance(base, Obj):
                if hasattr(base, "set_attr"):
                    base.set_attr(self, target.attr, value)      # records with a class (rules/one_roundtrip.py)
                else:
                    base.fields[target.attr] = value
            elif hasattr(type(base), "interp_methods"):
                base.__dict__[target.attr] = value
            else:
                raise Unsupported("assignment target")
        else:
            raise Unsupported("assignment target")

    def stmt(self, s, env):
        self.tick()
        if isinstance(s, ast.Expr):
            if isinstance(s.value, ast.Constant):
                return
            self.ev(s.value, env)
        elif isinstance(s, ast.Assign):
            v = self.ev(s.value, env)
            for t in s.targets:
                self.assign(t, v, env)
        elif isinstance(s, ast.AugAssign):
            cur = self.ev(s.target, env)
            v = self.ev(ast.BinOp(left=ast.Constant(cur), op=s.op, right=s.value), env) if False else None
            rhs = self.ev(s.value, env)
            fn = BIN_OPS.get(type(s.op))
            if fn is None:
                raise Unsupported("augassign op")
            if isinstance(cur, list) and isinstance(s.op, ast.Add):
                cur.extend(rhs)                 # in place, like list.__iadd__
                new = cur
            elif isinstance(cur, set) and isinstance(s.op, (ast.BitOr, ast.BitAnd, ast.Sub)):
                {ast.BitOr: cur.update, ast.BitAnd: cur.intersection_update, ast.Sub: cur.difference_update}[type(s.op)](rhs)
                new = cur
            else:
                try:
                    new = fn(cur, rhs)
                except TypeError as err:
                    raise PyRaise("TypeError", str(err))
            self.assign(s.target, new, env)
        elif isinstance(s, ast.Return):
            raise _Return(self.ev(s.value, env) if s.value is not None else None)
        elif isinstance(s, ast.If):
            if self.ev(s.test, env):
                self.block(s.body, env)
            else:
                self.block(s.orelse, env)
        elif isinstance(s, ast.While):
            broken = False
            while self.ev(s.test, env):
                try:
                    self.block(s.body, env)
                except _Break:
                    broken = True
                    break
                except _Continue:
                    continue
            if not broken and s.orelse:
                self.block(s.orelse, env)
        elif isinstance(s, ast.For):
            broken = False
            for v in self.ev(s.iter, env):
                self.assign(s.target, v, env)
                try:
                    self.block(s.body, env)
                except _Break:
                    broken = True
                    break
                except _Continue:
                    continue
            if not broken and s.orelse:
                self.block(s.orelse, env)
        elif isinstance(s, ast.FunctionDef):
            # a nested helper: a closure over the current environment (read access to the enclosing variables)
            env[s.name] = self._closure(s, env)
        elif isinstance(s, ast.Nonlocal):
            env.setdefault("$nonlocal", set()).update(s.names)
        elif isinstance(s, ast.Global):
            env.setdefault("$global", set()).update(s.names)
        elif isinstance(s, ast.AnnAssign):
            if s.value is not None:
                self.assign(s.target, self.ev(s.value, env), env)
        elif isinstance(s, ast.Break):
            raise _Break()
        elif isinstance(s, ast.Continue):
            raise _Continue()
        elif isinstance(s, ast.Pass):
            return
        elif isinstance(s, (ast.Import, ast.ImportFrom)):
            # a function-level import: fine when the evaluator already knows every imported name
            for al in s.names:
                nm = (al.asname or al.name).split(".")[0]
                if nm in self.g:
                    env[nm] = self.g[nm]
                else:
                    raise Unsupported("import of %s" % nm)
        elif isinstance(s, ast.Delete):
            for t in s.targets:
                if isinstance(t, ast.Subscript) and not isinstance(t.slice, ast.Slice):
                    base = self.ev(t.value, env)
                    if not isinstance(base, (dict, list)):
                        raise Unsupported("del on %s" % type(base).__name__)
                    try:
                        del base[self.ev(t.slice, env)]
                    except KeyError as err:
                        raise PyRaise("KeyError", str(err))
                    except IndexError as err:
                        raise PyRaise("IndexError", str(err))
                elif isinstance(t, ast.Name):
                    env.pop(t.id, None)
                else:
                    raise Unsupported("del target")
        elif isinstance(s, ast.Raise):
            if s.exc is None:
                cur = getattr(self, "_handling", None)
                if cur:
                    raise cur[-1]
                raise PyRaise("RuntimeError", "No active exception to reraise")
            e = s.exc.func if isinstance(s.exc, ast.Call) else s.exc
            ename = getattr(e, "id", getattr(e, "attr", "Exception"))
            # `raise X(args)` where the model knows how X is built: the exception carries its message
            maker = env.get(ename, self.g.get(ename)) if isinstance(e, ast.Name) else None
            if isinstance(s.exc, ast.Call) and callable(maker) and not isinstance(maker, type):
                try:
                    made = self.call(s.exc, env)
                except Unsupported:
                    made = None
                if isinstance(made, PyRaise):
                    raise made
            elif isinstance(s.exc, ast.Name) and isinstance(env.get(s.exc.id), ExcValue):
                raise env[s.exc.id].err          # `raise err` of a caught exception
            raise PyRaise(ename)
        elif isinstance(s, ast.Assert):
            if not self.ev(s.test, env):
                raise PyRaise("AssertionError")
        elif isinstance(s, ast.Try) and not s.finalbody:
            try:
                self.block(s.body, env)
            except PyRaise as err:
                for h in s.handlers:
                    names = []
                    if h.type is None:
                        names = ["BaseException"]
                    elif isinstance(h.type, ast.Tuple):
                        names = [getattr(e, "id", getattr(e, "attr", "?")) for e in h.type.elts]
                    else:
                        names = [getattr(h.type, "id", getattr(h.type, "attr", "?"))]
                    if err.exc_type in names or ("Exception" in names and err.exc_type not in NOT_EXCEPTIONS) or "BaseException" in names:
                        if h.name:
                            env[h.name] = err.value if err.value is not None else ExcValue(err)
                        if not hasattr(self, "_handling"):
                            self._handling = []
                        self._handling.append(err)
                        try:
                            self.block(h.body, env)
                        finally:
                            self._handling.pop()
                        break
                else:
                    raise
            else:
                self.block(s.orelse, env)
        elif isinstance(s, ast.Try):
            inner = ast.Try(body=s.body, handlers=s.handlers, orelse=s.orelse, finalbody=[])
            try:
                if s.handlers:
                    self.stmt(inner, env)
                else:
                    self.block(s.body, env)
            finally:
                self.block(s.finalbody, env)
        elif isinstance(s, ast.With) and all(isinstance(i.context_expr, ast.expr) for i in s.items):
            # context managers of the model: an object with close() (a file of the virtual file system); the body runs, then close()
            opened = []
            for i in s.items:
                v = self.ev(i.context_expr, env)
                if not (isinstance(v, Obj) and "close" in v.fields):
                    raise Unsupported("with on %s" % type(v).__name__)
                opened.append(v)
                if i.optional_vars is not None:
                    self.assign(i.optional_vars, v, env)
            try:
                self.block(s.body, env)
            finally:
                for v in opened:
                    v.fields["close"]()
        else:
            raise Unsupported("statement %s" % type(s).__name__)


def module_regexes(model, modname):
    """name -> compiled regex or bound method, rebuilt from the *literal* pattern/flags recorded in the snapshot."""
    out = {}
    for name, ent in model.snap["module_globals"].get(modname, {}).items():
        if ent.get("kind") == "regex":
            out[name] = re.compile(ent["pattern"], ent["flags"])
        elif ent.get("kind") == "regex_method":
            out[name] = getattr(re.compile(ent["pattern"], ent["flags"]), ent["method"])
        elif ent.get("kind") == "const":
            out[name] = ent["value"]
    return out


_GEN_CACHE = {}


def is_generator(funcdef):
    """does the body of this def (not of a def nested in it) yield?"""
    if isinstance(funcdef, ast.Lambda):
        return False
    k = id(funcdef)
    hit = _GEN_CACHE.get(k)
    if hit is not None and hit[0] is funcdef:
        return hit[1]
    v = _is_generator(funcdef)
    _GEN_CACHE[k] = (funcdef, v)
    return v


def _is_generator(funcdef):
    stack = list(funcdef.body)
    while stack:
        n = stack.pop()
        if isinstance(n, (ast.Yield, ast.YieldFrom)):
            return True
        if isinstance(n, (ast.FunctionDef, ast.AsyncFunctionDef, ast.Lambda, ast.ClassDef)):
            continue
        stack.extend(ast.iter_child_nodes(n))
    return False


_LOCALS_CACHE = {}


def local_names(funcdef):
    """the names Python treats as locals of this def: assigned (or deleted, imported, bound by for/with/except) in its own body, not
    declared global/nonlocal; names bound only inside comprehensions or nested defs are not"""
    k = id(funcdef)
    hit = _LOCALS_CACHE.get(k)
    if hit is not None and hit[0] is funcdef:
        return hit[1]
    out, declared = set(), set()
    if isinstance(funcdef, ast.Lambda):
        _LOCALS_CACHE[k] = (funcdef, frozenset())
        return frozenset()
    stack = list(funcdef.body)
    while stack:
        n = stack.pop()
        if isinstance(n, (ast.FunctionDef, ast.AsyncFunctionDef, ast.ClassDef)):
            out.add(n.name)
            continue
        if isinstance(n, (ast.Lambda, ast.ListComp, ast.SetComp, ast.DictComp, ast.GeneratorExp)):
            continue
        if isinstance(n, (ast.Global, ast.Nonlocal)):
            declared.update(n.names)
        if isinstance(n, ast.Name) and isinstance(n.ctx, (ast.Store, ast.Del)):
            out.add(n.id)
        if isinstance(n, ast.ExceptHandler) and n.name:
            out.add(n.name)
        if isinstance(n, (ast.Import, ast.ImportFrom)):
            for al in n.names:
                out.add((al.asname or al.name).split(".")[0])
        stack.extend(ast.iter_child_nodes(n))
    params = {a.arg for a in funcdef.args.posonlyargs + funcdef.args.args + funcdef.args.kwonlyargs}
    res = frozenset(out - declared - params)
    _LOCALS_CACHE[k] = (funcdef, res)
    return res
