"""E4: tuple-shape abstract interpretation of match methods and index usage of printers.

A *shape* is a tuple of element kinds:  'none' | ('lit', text) | ('node', class name or '?') | 'input' | 'list' | 'seq' | 'top'.
shapes_of(match function) is a set of shapes plus a flag `open` when some return could not be determined.
"""
import ast

from . import astutil as A

UTILS = "fparser.two.utils"
STR_METHODS = {"strip", "lstrip", "rstrip", "upper", "lower", "replace", "join", "format", "title", "capitalize"}


class ShapeSet:
    def __init__(self):
        self.shapes = set()
        self.open = False       # some return is undetermined (⊤)
        self.none = False       # can return None
        self.node = False       # can return a ready-made node (Base instance)
        self.conds = {}         # shape -> [ {param: truthiness required on the path to that return}, ... ] (one dict per return site)

    def arities(self):
        return {len(s) for s in self.shapes}

    def __repr__(self):
        return "<ShapeSet %s%s%s>" % (sorted(self.shapes, key=repr), " +open" if self.open else "", " +none" if self.none else "")


class Shapes:
    def __init__(self, model, cg):
        self.m = model
        self.cg = cg
        self.base = model.key("Base", UTILS)
        self.cache = {}
        self.stack = set()

    # ------------------------------------------------------------------ expression kinds
    def kind(self, f, node, depth=0):
        m = self.m
        if node is None:
            return "none"
        if isinstance(node, ast.Constant):
            if node.value is None:
                return "none"
            if isinstance(node.value, str):
                return ("lit", node.value)
            return ("lit", repr(node.value))
        if isinstance(node, ast.Call):
            fn = node.func
            if isinstance(fn, ast.Name):
                locs = self.cg.locals_of(f)
                if fn.id in locs:
                    if fn.id in A.param_names(f.node):
                        return ("pnode", fn.id)       # a class-valued parameter is called
                    if fn.id.endswith("cls") or fn.id in ("cls", "subcls"):
                        return ("node", "?")
                    return "top"
                k = m.class_of_name(f, fn.id)
                if k and m.issub(k, self.base):
                    return ("node", k.split(":")[1])
                if fn.id in ("str", "repr"):
                    return "input"
                if fn.id in ("tuple", "list"):
                    return "list"
                return "top"
            if isinstance(fn, ast.Attribute):
                if fn.attr in STR_METHODS or fn.attr in ("group", "upper"):
                    return "input"
                if fn.attr.endswith("_cls") or fn.attr in ("label_do_stmt_cls", "nonlabel_do_stmt_cls"):
                    return ("node", "?")
                # cls.some_hook()(...)
            if isinstance(fn, ast.Call):
                return ("node", "?")
            return "top"
        if isinstance(node, (ast.Subscript,)):
            base = node.value
            if isinstance(base, ast.Name):
                # slice of a string-like local/param
                return "input"
            return "input"
        if isinstance(node, ast.JoinedStr):
            return "input"
        if isinstance(node, ast.BinOp):
            return "input"
        if isinstance(node, (ast.List, ast.Tuple)) and node.elts and not any(isinstance(e, ast.Starred) for e in node.elts):
            return "seq"        # a non-empty sequence literal (always truthy)
        if isinstance(node, (ast.List, ast.ListComp)):
            return "list"
        if isinstance(node, ast.Tuple):
            return "list"
        if isinstance(node, ast.IfExp):
            a, b = self.kind(f, node.body, depth), self.kind(f, node.orelse, depth)
            return a if a == b else ("alt", frozenset([a, b]))
        if isinstance(node, ast.Name):
            if depth > 3:
                return "top"
            if node.id in A.param_names(f.node):
                ps = A.param_names(f.node)
                if node.id in ("string", "fstring", "line") or ps and node.id == ps[-1]:
                    return "input"
                return ("param", node.id)
            defs = self.defs(f, node.id)
            if not defs:
                return "top"
            kinds = {self.kind(f, d, depth + 1) if d is not None else "top" for d in defs}
            if len(kinds) == 1:
                return next(iter(kinds))
            return ("alt", frozenset(kinds))
        return "top"

    def defs(self, f, name):
        out = []
        for n in A.body_nodes(f.node):
            if isinstance(n, ast.Assign):
                for t in n.targets:
                    if isinstance(t, ast.Name) and t.id == name:
                        out.append(n.value)
                    elif isinstance(t, (ast.Tuple, ast.List)) and name in A.assigned_names(t):
                        if isinstance(n.value, (ast.Tuple, ast.List)) and len(n.value.elts) == len(t.elts):
                            for tt, vv in zip(t.elts, n.value.elts):
                                if isinstance(tt, ast.Name) and tt.id == name:
                                    out.append(vv)
                        else:
                            out.append(ast.Constant(value=Ellipsis))   # piece of an unpacked value: input-ish
            elif isinstance(n, ast.AugAssign) and isinstance(n.target, ast.Name) and n.target.id == name:
                out.append(None)
            elif isinstance(n, (ast.For, ast.comprehension)) and name in A.assigned_names(n.target):
                out.append(None)
        return out

    # ------------------------------------------------------------------ shapes of a match function
    def of_func(self, f):
        key = id(f)
        if key in self.cache:
            return self.cache[key]
        if key in self.stack:
            # a recursive call adds nothing the other returns do not already contribute (least fixpoint)
            s = ShapeSet()
            s.none = True
            return s
        self.stack.add(key)
        res = ShapeSet()
        rets = A.returns(f.node)
        if not rets:
            res.none = True
        # falling off the end
        last = f.node.body[-1] if f.node.body else None
        if not isinstance(last, (ast.Return, ast.Raise)):
            res.none = True
        P = None
        params = set(A.param_names(f.node))
        for r in rets:
            tmp = ShapeSet()
            self._ret(f, r.value, tmp, 0)
            if tmp.shapes and params:
                if P is None:
                    P = A.parents(f.node)
                conds = self._param_conds(f, r, P, params)
                for sh in tmp.shapes:
                    res.conds.setdefault(sh, []).append(conds)
            else:
                for sh in tmp.shapes:
                    res.conds.setdefault(sh, []).append({})
            res.shapes |= tmp.shapes
            res.open |= tmp.open
            res.none |= tmp.none
            res.node |= tmp.node
            for sh, cs in tmp.conds.items():
                pass
        self.stack.discard(key)
        self.cache[key] = res
        return res

    def _param_conds(self, f, ret, P, params):
        """{param: True/False} -- truthiness of plain parameters that the path to this return requires (from enclosing ifs and
        earlier early exits); parameters that are re-assigned in the function are left out."""
        from rules import delim_rules as D
        reassigned = {n for x in A.body_nodes(f.node) if isinstance(x, (ast.Assign, ast.AugAssign, ast.For))
                      for t in (x.targets if isinstance(x, ast.Assign) else [x.target]) for n in A.assigned_names(t)}
        out = {}
        for t, pol in D.facts_at(f.node, ret, P):
            for lit, lp in D.expand(t, pol):
                if isinstance(lit, ast.Name) and lit.id in params and lit.id not in reassigned:
                    out[lit.id] = lp
        return out

    def _ret(self, f, v, res, depth):
        if v is None or (isinstance(v, ast.Constant) and v.value is None):
            res.none = True
            return
        if isinstance(v, ast.Tuple):
            if any(isinstance(e, ast.Starred) for e in v.elts):
                res.open = True
                return
            res.shapes.add(tuple(self.kind(f, e) for e in v.elts))
            return
        if isinstance(v, ast.Call):
            fn = v.func
            if isinstance(fn, ast.Attribute) and fn.attr in ("match", "_match", "match2"):
                tg = self.cg.resolve(f, v)
                got = False
                for t in tg:
                    if t.kind == "func":
                        sub = self.of_func(t.func)
                        res.shapes |= self._bind(f, v, t.func, sub)
                        res.open |= sub.open
                        res.none |= sub.none
                        res.node |= sub.node
                        got = True
                if not got:
                    res.open = True
                return
            if isinstance(fn, ast.Name):
                k = self.m.class_of_name(f, fn.id)
                if k and self.m.issub(k, self.base) and fn.id not in self.cg.locals_of(f):
                    res.node = True
                    return
                if fn.id in ("tuple",):
                    res.open = True
                    return
            res.open = True
            return
        if isinstance(v, ast.BinOp) and isinstance(v.op, ast.Add):
            left, right = ShapeSet(), ShapeSet()
            self._ret(f, v.left, left, depth)
            self._ret(f, v.right, right, depth)
            if left.open or right.open or not left.shapes or not right.shapes:
                res.open = True
            for a in left.shapes:
                for b in right.shapes:
                    res.shapes.add(a + b)
            return
        if isinstance(v, ast.Name):
            if depth > 3:
                res.open = True
                return
            defs = self.defs(f, v.id)
            if not defs:
                res.open = True
                return
            for d in defs:
                if d is None:
                    res.open = True
                else:
                    self._ret(f, d, res, depth + 1)
            return
        if isinstance(v, ast.IfExp):
            self._ret(f, v.body, res, depth)
            self._ret(f, v.orelse, res, depth)
            return
        res.open = True

    def _bind(self, f, call, callee, sub):
        """Specialise the callee's shapes with the class arguments of the call (('param', p) -> ('node', Class))."""
        params = A.param_names(callee.node)
        b = A.bind(call, params) or {}
        defaults = A.param_defaults(callee.node)

        def sub1(e):
            if isinstance(e, tuple) and e and e[0] == "param":
                arg = b.get(e[1], defaults.get(e[1]))
                return self.kind(f, arg) if arg is not None else "top"
            if isinstance(e, tuple) and e and e[0] == "pnode":
                arg = b.get(e[1], defaults.get(e[1]))
                if arg is None:
                    return ("node", "?")
                if isinstance(arg, ast.Constant) and arg.value is None:
                    return "none"       # the engine cannot call None: that element stays empty
                k = self.kind(f, ast.Call(func=arg, args=[], keywords=[])) if isinstance(arg, ast.Name) else ("node", "?")
                return k if isinstance(k, tuple) and k[0] in ("node", "pnode") else ("node", "?")
            if isinstance(e, tuple) and e and e[0] == "alt":
                parts = set()
                for x in e[1]:
                    y = sub1(x)
                    parts |= y[1] if isinstance(y, tuple) and y and y[0] == "alt" else {y}
                return next(iter(parts)) if len(parts) == 1 else ("alt", frozenset(parts))
            return e
        def truth(arg):
            if arg is None:
                return None
            if isinstance(arg, ast.Constant):
                return bool(arg.value)
            return None
        out = set()
        for s in sub.shapes:
            alts = sub.conds.get(s)
            if alts:
                feasible = False
                for c in alts:
                    ok = True
                    for p_, want in c.items():
                        got = truth(b.get(p_, defaults.get(p_)))
                        if got is not None and got != want:
                            ok = False
                    feasible = feasible or ok
                if not feasible:
                    continue
            out.add(tuple(sub1(e) for e in s))
        return out


# ---------------------------------------------------------------------- printer side
class PrinterUse:
    """How a printer reads self.items: constant indices, whole-tuple idioms, unpack arity, length guards."""

    def __init__(self):
        self.indices = set()
        self.whole = []        # (kind, n_conversions or None, node)
        self.unpack = []       # (n, node)
        self.len_guards = []   # (op, n, node)
        self.dynamic = False   # non-constant index / iteration
        self.delegates = []    # base tostr calls
        self.attrs = set()     # other self.<attr> read


def count_conversions(fmt):
    import re
    return len(re.findall(r"%(?!%)[#0\- +]*\d*(?:\.\d+)?[sdrfgxi]", fmt.replace("%%", "")))


def printer_use(f, itemvar="items"):
    u = PrinterUse()
    P = A.parents(f.node)
    for n in A.body_nodes(f.node):
        if isinstance(n, ast.Attribute) and isinstance(n.value, ast.Name) and n.value.id == "self" and isinstance(n.ctx, ast.Load):
            if n.attr != itemvar:
                u.attrs.add(n.attr)
                continue
            p = P.get(n)
            if isinstance(p, ast.Subscript) and p.value is n:
                if isinstance(p.slice, ast.Constant) and isinstance(p.slice.value, int):
                    u.indices.add(p.slice.value)
                elif isinstance(p.slice, ast.UnaryOp) and isinstance(p.slice.op, ast.USub) and isinstance(p.slice.operand, ast.Constant):
                    u.indices.add(-p.slice.operand.value)
                elif isinstance(p.slice, ast.Slice):
                    u.whole.append(("slice", None, p))
                else:
                    u.dynamic = True
            elif isinstance(p, ast.Call) and A.dotted(p.func) == "tuple":
                pp = P.get(p)
                if isinstance(pp, ast.BinOp) and isinstance(pp.op, ast.Mod) and isinstance(pp.left, ast.Constant) and isinstance(pp.left.value, str):
                    u.whole.append(("format", count_conversions(pp.left.value), pp))
                else:
                    u.whole.append(("tuple", None, p))
            elif isinstance(p, ast.BinOp) and isinstance(p.op, ast.Mod) and p.right is n and isinstance(p.left, ast.Constant) and isinstance(p.left.value, str):
                u.whole.append(("format", count_conversions(p.left.value), p))
            elif isinstance(p, ast.Call) and A.dotted(p.func) == "len":
                pp = P.get(p)
                if isinstance(pp, ast.Compare) and len(pp.ops) == 1 and isinstance(pp.comparators[0], ast.Constant):
                    u.len_guards.append((type(pp.ops[0]).__name__, pp.comparators[0].value, pp))
                else:
                    u.dynamic = True
            elif isinstance(p, ast.Assign) and p.value is n and isinstance(p.targets[0], (ast.Tuple, ast.List)):
                u.unpack.append((len(p.targets[0].elts), p))
            elif isinstance(p, ast.Call) and isinstance(p.func, ast.Attribute) and p.func.attr in ("format",) :
                u.whole.append(("format-call", None, p))
            elif isinstance(p, (ast.For, ast.comprehension)) or (isinstance(p, ast.Call) and A.dotted(p.func) in ("map", "list", "enumerate", "zip")):
                u.whole.append(("iterate", None, p))
            elif isinstance(p, ast.Call):
                # passed whole to something (e.g. "".join(map(str, self.items)))
                u.whole.append(("passed", None, p))
            elif isinstance(p, (ast.UnaryOp, ast.BoolOp, ast.If, ast.IfExp, ast.Compare)):
                pass
            else:
                u.dynamic = True
        if isinstance(n, ast.Call) and isinstance(n.func, ast.Attribute) and n.func.attr in ("tostr", "tofortran") and n.args and A.text(n.args[0]) == "self":
            u.delegates.append(n)
        if isinstance(n, ast.Call) and isinstance(n.func, ast.Attribute) and n.func.attr in ("tostr",) and isinstance(n.func.value, ast.Call) \
                and A.dotted(n.func.value.func) == "super":
            u.delegates.append(n)
    return u
