"""Import-time introspection of fparser, run in a subprocess of /venv/bin/python.

Usage:  PYTHONPATH=<repo>/src /venv/bin/python introspect.py <repo>/src  > snapshot.json

Executes only (a) module import and (b) ParserFactory().create(std) -- the
grammar linker.  No reader is constructed, nothing is matched or printed.
"""
import importlib
import inspect
import json
import os
import re
import sys
import types


def key_of(cls):
    return "%s:%s" % (cls.__module__, cls.__qualname__)


def main(src):
    src = os.path.realpath(src)
    sys.path.insert(0, src)
    pkg_dir = os.path.join(src, "fparser")
    modules = {}
    errors = []
    for root, dirs, files in os.walk(pkg_dir):
        dirs[:] = sorted(d for d in dirs if d not in ("tests", "__pycache__"))
        for fn in sorted(files):
            if not fn.endswith(".py") or fn == "conftest.py":
                continue
            rel = os.path.relpath(os.path.join(root, fn), src)[:-3]
            parts = rel.split(os.sep)
            if parts[-1] == "__init__":
                parts = parts[:-1]
            name = ".".join(parts)
            if ".scripts" in name:
                # scripts parse sys.argv at import in places; they are
                # analysed from their AST only
                continue
            try:
                modules[name] = importlib.import_module(name)
            except Exception as err:  # pragma: no cover
                errors.append("%s: %s: %s" % (name, type(err).__name__, err))
    if errors:
        json.dump({"import_errors": errors}, sys.stdout)
        return

    import fparser
    real = os.path.realpath(fparser.__file__)
    if not real.startswith(src):
        json.dump({"import_errors": ["fparser imported from %s, not %s" % (real, src)]}, sys.stdout)
        return

    out = {"src": src, "modules": sorted(modules)}

    # ---- classes -----------------------------------------------------
    classes = {}

    def describe_callable(raw):
        kind = "other"
        func = None
        if isinstance(raw, staticmethod):
            kind, func = "staticmethod", raw.__func__
        elif isinstance(raw, classmethod):
            kind, func = "classmethod", raw.__func__
        elif isinstance(raw, property):
            kind, func = "property", raw.fget
        elif isinstance(raw, types.FunctionType):
            kind, func = "function", raw
        elif callable(raw):
            kind = "callable"
        d = {"kind": kind}
        if func is not None and hasattr(func, "__code__"):
            fn = func.__code__.co_filename
            d["file"] = os.path.realpath(fn) if os.path.exists(fn) else fn
            d["lineno"] = func.__code__.co_firstlineno
            d["qualname"] = func.__qualname__
            d["fname"] = func.__name__
            try:
                sig = inspect.signature(func)
                d["params"] = [
                    {"name": p.name, "kind": p.kind.name,
                     "has_default": p.default is not inspect._empty}
                    for p in sig.parameters.values()
                ]
            except (TypeError, ValueError):
                pass
        return d

    def describe_patterns(raw):
        """regex-like class attributes: re.Pattern, pattern_tools.Pattern, or a tuple/list of them."""
        try:
            from fparser.two import pattern_tools as _pt
        except Exception:
            _pt = None
        def one(x):
            if isinstance(x, re.Pattern):
                return {"kind": "re", "pattern": x.pattern, "flags": x.flags}
            if isinstance(x, types.BuiltinMethodType) and isinstance(getattr(x, "__self__", None), re.Pattern):
                return {"kind": "re_method", "method": x.__name__, "pattern": x.__self__.pattern, "flags": x.__self__.flags}
            if _pt is not None and isinstance(x, _pt.Pattern):
                c = x.get_compiled()
                return {"kind": "Pattern", "pattern": c.pattern, "flags": c.flags, "value": x.value, "label": x.label}
            return None
        r = one(raw)
        if r is not None:
            return [r]
        if isinstance(raw, (tuple, list)) and raw:
            lst = [one(x) for x in raw]
            if all(x is not None for x in lst):
                return lst
        return None

    def add_class(cls):
        k = key_of(cls)
        if k in classes:
            return
        if not cls.__module__.startswith("fparser"):
            return
        own = {}
        for name, raw in cls.__dict__.items():
            if name in ("__dict__", "__weakref__", "__doc__", "__module__", "__qualname__"):
                continue
            if isinstance(raw, (staticmethod, classmethod, property, types.FunctionType)):
                own[name] = describe_callable(raw)
            else:
                v = {"kind": "data", "type": type(raw).__name__}
                pats = describe_patterns(raw)
                if pats is not None:
                    v["patterns"] = pats
                if inspect.isclass(raw) and raw.__module__.startswith("fparser"):
                    v["class_key"] = key_of(raw)
                if isinstance(raw, (str, int, bool, type(None))):
                    v["value"] = raw
                elif isinstance(raw, (list, tuple)) and all(isinstance(x, (str, int, type(None))) for x in raw):
                    v["value"] = list(raw)
                elif isinstance(raw, dict) and all(isinstance(x, str) for x in raw):
                    v["keys"] = list(raw)
                    if raw and all(isinstance(x, dict) and all(isinstance(y, str) for y in x) and
                                   all(isinstance(y, (int, str, type(None))) for y in x.values()) for x in raw.values()):
                        v["entries"] = {a: dict(b) for a, b in raw.items()}
                    elif raw and all(isinstance(x, (str, int, type(None))) for x in raw.values()):
                        v["entries"] = dict(raw)
                own[name] = v
        srcfile = getattr(sys.modules.get(cls.__module__), "__file__", None)
        generated = any(v.get("file") == "<string>" for v in own.values())
        lineno = None
        classes[k] = {
            "name": cls.__name__,
            "qualname": cls.__qualname__,
            "importable": getattr(sys.modules.get(cls.__module__), cls.__qualname__.split(".")[0], None) is cls if "." not in cls.__qualname__
            else False,
            "module": cls.__module__,
            "file": os.path.realpath(srcfile) if srcfile else None,
            "lineno": lineno,
            "generated": generated,
            "bases": [key_of(b) for b in cls.__bases__ if b.__module__.startswith("fparser")],
            "mro": [key_of(b) for b in cls.__mro__ if b.__module__.startswith("fparser")],
            "builtin_bases": [b.__name__ for b in cls.__mro__ if not b.__module__.startswith("fparser")],
            "own": own,
            "subclass_names": list(getattr(cls, "subclass_names", None) or []) if isinstance(getattr(cls, "subclass_names", None), (list, tuple)) else None,
            "use_names": list(getattr(cls, "use_names", None) or []) if isinstance(getattr(cls, "use_names", None), (list, tuple)) else None,
            "has_subclass_names": hasattr(cls, "subclass_names"),
        }
        for b in cls.__mro__:
            if b is not cls and b.__module__.startswith("fparser"):
                add_class(b)

    module_globals = {}
    for mname, mod in modules.items():
        g = {}
        for name, val in vars(mod).items():
            if name.startswith("__"):
                continue
            if inspect.isclass(val):
                if val.__module__.startswith("fparser"):
                    add_class(val)
                    g[name] = {"kind": "class", "key": key_of(val)}
                else:
                    g[name] = {"kind": "extclass", "name": "%s.%s" % (val.__module__, val.__qualname__)}
            elif inspect.ismodule(val):
                g[name] = {"kind": "module", "name": val.__name__}
            elif isinstance(val, types.FunctionType):
                fn = val.__code__.co_filename
                g[name] = {"kind": "function", "module": val.__module__, "qualname": val.__qualname__,
                           "file": os.path.realpath(fn) if os.path.exists(fn) else fn,
                           "lineno": val.__code__.co_firstlineno}
            elif isinstance(val, re.Pattern):
                g[name] = {"kind": "regex", "pattern": val.pattern, "flags": val.flags}
            elif isinstance(val, types.BuiltinMethodType) and isinstance(getattr(val, "__self__", None), re.Pattern):
                g[name] = {"kind": "regex_method", "method": val.__name__,
                           "pattern": val.__self__.pattern, "flags": val.__self__.flags}
            elif isinstance(val, (str, int, bool, type(None), float)):
                g[name] = {"kind": "const", "value": val}
            elif isinstance(val, (list, tuple)) and all(isinstance(x, (str, int)) for x in val):
                g[name] = {"kind": "const", "value": list(val)}
            else:
                tn = type(val)
                ent = {"kind": "object", "type": "%s.%s" % (tn.__module__, tn.__qualname__)}
                if tn.__module__.startswith("fparser"):
                    ent["type_key"] = key_of(tn)
                g[name] = ent
        module_globals[mname] = g
    out["module_globals"] = module_globals

    # ---- patterns ------------------------------------------------------
    from fparser.two import pattern_tools
    pats = {}
    for name, val in vars(pattern_tools).items():
        if isinstance(val, pattern_tools.Pattern):
            try:
                comp = val.get_compiled()
                pats[name] = {"label": val.label, "pattern": val.pattern,
                              "flags": getattr(val, "_flags", 0), "value": val.value,
                              "compiled_pattern": comp.pattern, "compiled_flags": comp.flags}
            except Exception as err:  # pragma: no cover
                pats[name] = {"error": repr(err)}
    out["patterns"] = pats

    # ---- exceptions ----------------------------------------------------
    excs = {}
    for k, c in list(classes.items()):
        pass
    for mname, mod in modules.items():
        for name, val in vars(mod).items():
            if inspect.isclass(val) and issubclass(val, BaseException) and val.__module__.startswith("fparser"):
                excs[val.__name__] = [b.__name__ for b in val.__mro__]
    out["exceptions"] = excs

    # ---- registries -----------------------------------------------------
    from fparser.two.parser import ParserFactory
    from fparser.two import Fortran2003, Fortran2008, utils, C99Preprocessor
    registry = {}
    std_classes = {}
    for std in ("f2003", "f2008"):
        ParserFactory().create(std=std)
        reg = {}
        for rule, lst in utils.Base.subclasses.items():
            reg[rule] = [key_of(c) for c in lst]
            for c in lst:
                add_class(c)
        registry[std] = reg
        # the class a rule name denotes in this standard (as in create())
        f2003_members = {n: c for n, c in inspect.getmembers(Fortran2003, inspect.isclass)
                         if c.__module__ == Fortran2003.__name__}
        if std == "f2003":
            members = f2003_members
        else:
            members = dict(inspect.getmembers(sys.modules[Fortran2008.__name__], inspect.isclass))
            for n, c in f2003_members.items():
                members.setdefault(n, c)
        sc = {}
        for n, c in members.items():
            if isinstance(c, type) and issubclass(c, utils.Base) and not c.__name__.endswith("Base"):
                sc[c.__name__] = key_of(c)
                add_class(c)
        std_classes[std] = sc
    out["registry"] = registry
    out["std_classes"] = std_classes

    # ---- DynamicImport ----------------------------------------------------
    di = {}
    for name, val in vars(utils.DynamicImport).items():
        if inspect.isclass(val):
            di[name] = {"kind": "class", "key": key_of(val)}
        elif inspect.ismodule(val):
            di[name] = {"kind": "module", "name": val.__name__}
        elif isinstance(val, types.FunctionType):
            di[name] = {"kind": "function", "module": val.__module__, "qualname": val.__qualname__}
    out["di"] = di
    out["cpp_class_names"] = list(getattr(C99Preprocessor, "CPP_CLASS_NAMES", []))

    # intrinsics tables (names only) -- data for C16/C17
    try:
        from fparser.two.Fortran2003 import Intrinsic_Name
        from fparser.two.Fortran2008.intrinsics_f08 import Intrinsic_Name as IN08
        out["intrinsics"] = {
            "f2003": sorted(Intrinsic_Name.function_names),
            "f2008": sorted(IN08.function_names),
        }
    except Exception as err:  # pragma: no cover
        out["intrinsics"] = {"error": repr(err)}

    # fparser1 registry: classes returned by get_classes of each block
    try:
        from fparser.one import block_statements, statements, typedecl_statements
        from fparser.common import base_classes
        one = {}
        for n, c in inspect.getmembers(block_statements, inspect.isclass):
            if issubclass(c, base_classes.BeginStatement) and "get_classes" in dir(c):
                pass
        out["one_modules"] = ["fparser.one.block_statements", "fparser.one.statements",
                              "fparser.one.typedecl_statements"]
    except Exception as err:  # pragma: no cover
        out["one_error"] = repr(err)

    out["classes"] = classes
    # codec error handler registration (C06.R4)
    import codecs
    try:
        codecs.lookup_error("fparser-logging")
        out["codec_handler_registered"] = True
    except LookupError:
        out["codec_handler_registered"] = False
    json.dump(out, sys.stdout)


if __name__ == "__main__":
    main(sys.argv[1])
