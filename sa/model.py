"""E1 program model: AST index of /repo/src/fparser + import-time introspection snapshot."""
import ast
import json
import os
import subprocess
import sys

HERE = os.path.dirname(os.path.abspath(__file__))
PY = "/venv/bin/python"


class AnalysisError(Exception):
    """The analysis itself cannot proceed (anchor vanished, idiom not
    recognised, floor not met, tree does not import).  Exit code 2."""


class FuncInfo:
    __slots__ = ("file", "qualname", "node", "cls_node", "module")

    def __init__(self, file, qualname, node, cls_node, module):
        self.file = file
        self.qualname = qualname
        self.node = node
        self.cls_node = cls_node
        self.module = module

    def __repr__(self):
        return "<Func %s:%s>" % (os.path.basename(self.file), self.qualname)


class Model:
    def __init__(self, repo="/repo"):
        self.repo = os.path.realpath(repo)
        self.src = os.path.join(self.repo, "src")
        self.pkg = os.path.join(self.src, "fparser")
        if not os.path.isdir(self.pkg):
            raise AnalysisError("no package at %s" % self.pkg)
        self.files = {}       # path -> (source text, ast.Module)
        self.modname = {}     # path -> dotted module name
        self.modfile = {}     # dotted module name -> path
        self.funcs = {}       # (path, qualname) -> FuncInfo
        self.classdefs = {}   # (path, class qualname) -> ast.ClassDef
        self._parse_all()
        self.snap = self._introspect()
        self.classes = self.snap["classes"]
        self.by_name = {}
        for k, c in self.classes.items():
            self.by_name.setdefault(c["name"], []).append(k)
        self.exceptions = self.snap["exceptions"]

    # ------------------------------------------------------------------
    def _parse_all(self):
        for root, dirs, files in os.walk(self.pkg):
            dirs[:] = sorted(d for d in dirs if d not in ("tests", "__pycache__"))
            for fn in sorted(files):
                if not fn.endswith(".py") or fn == "conftest.py":
                    continue
                path = os.path.join(root, fn)
                with open(path, encoding="utf-8") as fh:
                    text = fh.read()
                try:
                    tree = ast.parse(text, filename=path)
                except SyntaxError as err:
                    raise AnalysisError("cannot parse %s: %s" % (path, err))
                normalise(tree)
                self.files[path] = (text, tree)
                rel = os.path.relpath(path, self.src)[:-3].split(os.sep)
                if rel[-1] == "__init__":
                    rel = rel[:-1]
                name = ".".join(rel)
                self.modname[path] = name
                self.modfile[name] = path
                self._index(path, name, tree)

    def _index(self, path, modname, tree):
        def visit(node, prefix, cls_node):
            for child in ast.iter_child_nodes(node):
                if isinstance(child, (ast.FunctionDef, ast.AsyncFunctionDef)):
                    q = prefix + child.name
                    self.funcs[(path, q)] = FuncInfo(path, q, child, cls_node, modname)
                    visit(child, q + ".<locals>.", None)
                elif isinstance(child, ast.ClassDef):
                    q = prefix + child.name
                    self.classdefs[(path, q)] = child
                    visit(child, q + ".", child)
                elif isinstance(child, (ast.If, ast.Try, ast.With, ast.For, ast.While)):
                    visit(child, prefix, cls_node)
        visit(tree, "", None)

    def _introspect(self):
        env = dict(os.environ)
        env["PYTHONPATH"] = self.src
        env["PYTHONDONTWRITEBYTECODE"] = "1"
        proc = subprocess.run(
            [PY, os.path.join(HERE, "introspect.py"), self.src],
            capture_output=True, text=True, env=env, cwd="/")
        if proc.returncode != 0:
            raise AnalysisError("introspection failed (tree does not import?):\n" + proc.stderr[-2000:])
        try:
            snap = json.loads(proc.stdout)
        except ValueError:
            raise AnalysisError("introspection produced no JSON:\n" + proc.stdout[-500:] + proc.stderr[-1500:])
        if "import_errors" in snap:
            raise AnalysisError("import errors: %s" % snap["import_errors"])
        return snap

    # ------------------------------------------------------------------ classes
    def cls(self, key):
        try:
            return self.classes[key]
        except KeyError:
            raise AnalysisError("class %s not found" % key)

    def key(self, name, module=None):
        """Unique class key for a bare class name (optionally in a module)."""
        ks = self.by_name.get(name, [])
        if module:
            ks = [k for k in ks if k.split(":")[0] == module]
        if len(ks) != 1:
            raise AnalysisError("class name %r resolves to %s" % (name, ks))
        return ks[0]

    def has_class(self, name, module=None):
        ks = self.by_name.get(name, [])
        if module:
            ks = [k for k in ks if k.split(":")[0] == module]
        return len(ks) >= 1

    def mro(self, key):
        return self.cls(key)["mro"]

    def issub(self, key, base_key):
        return base_key in self.cls(key)["mro"]

    def issub_name(self, key, base_name):
        return any(k.split(":")[1] == base_name for k in self.cls(key)["mro"])

    def resolve_attr(self, key, attr):
        """(owner key, descriptor) of attr through the real MRO, or None."""
        for k in self.mro(key):
            own = self.classes[k]["own"]
            if attr in own:
                return k, own[attr]
        return None

    def has_attr(self, key, attr):
        return self.resolve_attr(key, attr) is not None

    def func(self, file, qualname):
        return self.funcs.get((file, qualname))

    def method(self, key, attr):
        """FuncInfo of the resolved method, or None (missing / generated)."""
        r = self.resolve_attr(key, attr)
        if r is None:
            return None
        owner, d = r
        if d.get("kind") not in ("function", "staticmethod", "classmethod", "property"):
            return None
        f = d.get("file")
        if not f or f == "<string>":
            return None
        res = self.funcs.get((f, d["qualname"]))
        # a decorated method is seen by introspection as the decorator's wrapper: prefer the def in the class body
        oc = self.classes[owner]
        if oc.get("file") and (res is None or not d["qualname"].endswith("." + attr) or f != oc["file"]):
            direct = self.funcs.get((oc["file"], oc["name"] + "." + attr))
            if direct is not None:
                return direct
        return res

    def method_owner(self, key, attr):
        r = self.resolve_attr(key, attr)
        return r[0] if r else None

    def is_generated_method(self, key, attr):
        r = self.resolve_attr(key, attr)
        return bool(r) and r[1].get("file") == "<string>"

    def module_func(self, modname, name):
        path = self.modfile.get(modname)
        if path is None:
            return None
        return self.funcs.get((path, name))

    def need_func(self, modname, qualname):
        path = self.modfile.get(modname)
        f = self.funcs.get((path, qualname)) if path else None
        if f is None:
            raise AnalysisError("anchor vanished: %s:%s" % (modname, qualname))
        return f

    def classdef(self, key):
        c = self.cls(key)
        if not c["file"]:
            return None
        return self.classdefs.get((c["file"], c["name"]))

    def class_loc(self, key):
        cd = self.classdef(key)
        c = self.cls(key)
        if cd is None or not c["file"]:
            return None
        return "%s:%s" % (self.rel(c["file"]), cd.lineno)

    # ------------------------------------------------------------------ names
    def resolve_global(self, modname, name):
        """What a global name denotes in a module (from the introspection snapshot)."""
        return self.snap["module_globals"].get(modname, {}).get(name)

    def _local_imports(self, finfo):
        cache = self.__dict__.setdefault("_li_cache", {})
        r = cache.get(id(finfo))
        if r is not None:
            return r
        r = {}
        for node in ast.walk(finfo.node):
            if isinstance(node, ast.ImportFrom):
                mod = node.module or ""
                if node.level:
                    base = finfo.module.split(".")
                    is_pkg = self.modfile.get(finfo.module, "").endswith("__init__.py")
                    pkg = base if is_pkg else base[:-1]
                    pkg = pkg[: len(pkg) - (node.level - 1)]
                    mod = ".".join(pkg + ([mod] if mod else []))
                for al in node.names:
                    r.setdefault(al.asname or al.name, ("from", mod, al.name))
            elif isinstance(node, ast.Import):
                for al in node.names:
                    r.setdefault(al.asname or al.name.split(".")[0],
                                 ("import", al.name if al.asname else al.name.split(".")[0], None))
        cache[id(finfo)] = r
        return r

    def resolve_name_in_func(self, finfo, name):
        """Resolve a Name used inside a function: function-local imports first, then module globals.
        Returns a dict like module_globals entries, or None."""
        li = self._local_imports(finfo).get(name)
        if li is not None:
            if li[0] == "from":
                ent = self.resolve_global(li[1], li[2])
                if ent is not None:
                    return ent
                if (li[1] + "." + li[2]) in self.modfile:
                    return {"kind": "module", "name": li[1] + "." + li[2]}
            else:
                return {"kind": "module", "name": li[1]}
        return self.resolve_global(finfo.module, name)

    def class_of_name(self, finfo, name):
        ent = self.resolve_name_in_func(finfo, name)
        if ent and ent.get("kind") == "class":
            return ent["key"]
        return None

    # ------------------------------------------------------------------ grammar
    def alternatives(self, std, rule_name):
        return self.snap["registry"][std].get(rule_name, [])

    def std_class(self, std, name):
        return self.snap["std_classes"][std].get(name)

    def closure(self, std, key, _seen=None):
        """Concrete classes an invocation key(...) may return as an object in standard std."""
        if _seen is None:
            _seen = set()
        if key in _seen:
            return set()
        _seen.add(key)
        out = set()
        c = self.cls(key)
        if self.has_attr(key, "match"):
            out.add(key)
        for alt in self.alternatives(std, c["name"]):
            out |= self.closure(std, alt, _seen)
        return out

    def closure_all(self, key):
        return self.closure("f2003", key) | self.closure("f2008", key)

    def rel(self, path):
        return os.path.relpath(path, self.repo)

    def loc(self, finfo_or_path, node=None):
        if isinstance(finfo_or_path, FuncInfo):
            path = finfo_or_path.file
            node = node or finfo_or_path.node
        else:
            path = finfo_or_path
        return "%s:%s" % (self.rel(path), getattr(node, "lineno", "?"))

    def is_exc_sub(self, exc_name, base_name):
        """exception class hierarchy (fparser's own + builtins)."""
        if exc_name == base_name:
            return True
        if exc_name in self.exceptions:
            return base_name in self.exceptions[exc_name]
        import builtins
        e = getattr(builtins, exc_name, None)
        b = getattr(builtins, base_name, None)
        if isinstance(e, type) and isinstance(b, type):
            return issubclass(e, b)
        if isinstance(e, type) and base_name in self.exceptions:
            return False
        return False


# ----------------------------------------------------------------------------------------------------------
# normal form: every rule sees the same tree for code that differs only in the two shapes below
class _Conditions(ast.NodeTransformer):
    """(N3) `not (a is b)` / `not (a == b)` / `not (a in b)` (and the like) become the single comparison `a is not b` / `a != b` /
    `a not in b`; `not not x` in a test position becomes `x`.  (N4) `if not c: B else: A` with two non-empty branches (no elif chain)
    becomes `if c: A else: B`."""
    NEG = {ast.Is: ast.IsNot, ast.IsNot: ast.Is, ast.Eq: ast.NotEq, ast.NotEq: ast.Eq, ast.In: ast.NotIn, ast.NotIn: ast.In}

    def visit_UnaryOp(self, node):
        self.generic_visit(node)
        if isinstance(node.op, ast.Not):
            x = node.operand
            if isinstance(x, ast.Compare) and len(x.ops) == 1 and type(x.ops[0]) in self.NEG:
                new = ast.Compare(left=x.left, ops=[self.NEG[type(x.ops[0])]()], comparators=x.comparators)
                return ast.copy_location(new, node)
        return node

    def visit_If(self, node):
        self.generic_visit(node)
        if node.body and node.orelse and not (len(node.orelse) == 1 and isinstance(node.orelse[0], ast.If)) \
                and isinstance(node.test, ast.UnaryOp) and isinstance(node.test.op, ast.Not):
            node.test = node.test.operand
            node.body, node.orelse = node.orelse, node.body
        return node


def normalise(tree):
    """(N1) `t = E` directly followed by `return t`, where t is a plain local that is not used anywhere else in the function, becomes
    `return E`; (N2) a store of a constant into a local that is never read in the function is dropped.  Both are meaning-preserving,
    and they make the rules (which look at what is returned, and count the statements of a body) insensitive to a temporary
    introduced for a return value or to a no-op first statement.  Line numbers of the remaining nodes are unchanged."""
    _Conditions().visit(tree)
    for fn in [n for n in ast.walk(tree) if isinstance(n, (ast.FunctionDef, ast.AsyncFunctionDef))]:
        loads, stores = {}, {}
        for n in ast.walk(fn):
            if isinstance(n, ast.Name):
                (loads if isinstance(n.ctx, ast.Load) else stores).setdefault(n.id, []).append(n)
        declared = set()
        for n in ast.walk(fn):
            if isinstance(n, (ast.Global, ast.Nonlocal)):
                declared.update(n.names)
        nested_defs = [n for n in ast.walk(fn) if isinstance(n, (ast.FunctionDef, ast.Lambda, ast.ClassDef)) and n is not fn]

        # locals used as return temporaries only: every store is `t = E` directly in front of a `return t`, every load is that return
        pairs = {}
        lists = []
        for n in ast.walk(fn):
            for field in ("body", "orelse", "finalbody"):
                v = getattr(n, field, None)
                if isinstance(v, list) and v and isinstance(v[0], ast.stmt):
                    lists.append(v)          # (an ExceptHandler is a node with a body of its own)
        for v in lists:
            for a_, b_ in zip(v, v[1:]):
                if isinstance(a_, ast.Assign) and len(a_.targets) == 1 and isinstance(a_.targets[0], ast.Name) \
                        and isinstance(b_, ast.Return) and isinstance(b_.value, ast.Name) and b_.value.id == a_.targets[0].id:
                    pairs[a_.targets[0].id] = pairs.get(a_.targets[0].id, 0) + 1
        temps = {t for t, k in pairs.items() if len(loads.get(t, [])) == k and len(stores.get(t, [])) == k and t not in declared}

        def rewrite(stmts):
            out = []
            i = 0
            while i < len(stmts):
                s = stmts[i]
                nxt = stmts[i + 1] if i + 1 < len(stmts) else None
                if isinstance(s, ast.Assign) and len(s.targets) == 1 and isinstance(s.targets[0], ast.Name):
                    t = s.targets[0].id
                    if t not in declared:
                        if isinstance(nxt, ast.Return) and isinstance(nxt.value, ast.Name) and nxt.value.id == t \
                                and t in temps and not nested_defs:
                            new = ast.Return(value=s.value)
                            ast.copy_location(new, nxt)
                            out.append(new)
                            i += 2
                            continue
                        if isinstance(s.value, ast.Constant) and t not in loads and len(stores.get(t, [])) == 1 and not nested_defs \
                                and t.startswith("_"):
                            i += 1
                            continue
                out.append(s)
                i += 1
            return out or [ast.Pass()]
        for n in ast.walk(fn):
            for field in ("body", "orelse", "finalbody"):
                v = getattr(n, field, None)
                if isinstance(v, list) and v and isinstance(v[0], ast.stmt):
                    setattr(n, field, rewrite(v))
    return tree
