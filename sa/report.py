"""Verdicts, evidence files, known-findings handling, exit codes."""
import json
import os
import sys
import time
import hashlib

VERIF = os.path.dirname(os.path.dirname(os.path.abspath(__file__)))


class Finding:
    """A recognised construct that definitely violates a rule."""

    def __init__(self, rule, key, message, where=None, detail=None):
        self.rule = rule          # e.g. "C09.R1"
        self.key = key            # stable key: no line numbers
        self.message = message
        self.where = where        # file:line (diagnostic only)
        self.detail = detail or {}

    @property
    def fid(self):
        return "%s|%s" % (self.rule, self.key)

    def to_json(self):
        return {"rule": self.rule, "key": self.key, "id": self.fid, "message": self.message,
                "where": self.where, "detail": self.detail}


class RuleResult:
    def __init__(self, rule, title):
        self.rule = rule
        self.title = title
        self.instances = 0         # rule instances examined
        self.floor = 0             # minimum instances confirmed by hand
        self.obligations = 0
        self.discharged = 0
        self.undetermined = []     # list of str
        self.findings = []
        self.samples = []
        self.notes = []
        self.errors = []           # analysis errors (exit 2)

    def ob(self, ok, sample=None):
        self.obligations += 1
        if ok:
            self.discharged += 1
        if sample is not None and len(self.samples) < 6:
            self.samples.append(sample)

    def fail(self, key, message, where=None, detail=None):
        self.findings.append(Finding(self.rule, key, message, where, detail))

    def undet(self, what):
        self.undetermined.append(what)

    def error(self, what):
        self.errors.append(what)

    def sample(self, s):
        if len(self.samples) < 6:
            self.samples.append(s)

    def check_floor(self):
        if self.instances < self.floor:
            self.errors.append("%s: only %d instances found, floor is %d (extractor no longer sees the code)"
                               % (self.rule, self.instances, self.floor))

    def to_json(self):
        return {"rule": self.rule, "title": self.title, "instances": self.instances, "floor": self.floor,
                "obligations": self.obligations, "discharged": self.discharged,
                "undetermined": self.undetermined[:40], "undetermined_count": len(self.undetermined),
                "findings": [f.to_json() for f in self.findings],
                "samples": self.samples, "notes": self.notes, "errors": self.errors}


def retag(result, rid, title=None):
    """Re-issue a rule result under another property's rule id (shared rules)."""
    result.rule = rid
    if title:
        result.title = title
    for f in result.findings:
        f.rule = rid
    return result


def load_known():
    p = os.path.join(VERIF, "known_findings.json")
    with open(p) as fh:
        d = json.load(fh)
    return d


def finish(pid, tier, results, t0, trusted_base, explanation, extra_assumptions=(), extra=None):
    """Print the report, write evidence, return exit code."""
    known = load_known()
    known_ids = {}
    for k in known.get("known", []):
        if k.get("property") == pid:
            known_ids[k["id"]] = k
    seed = int(os.environ.get("VERIF_SEED", "0") or 0)
    evdir = os.environ.get("VERIF_EVIDENCE_DIR") or os.path.join(VERIF, "evidence")
    os.makedirs(os.path.join(evdir, "findings"), exist_ok=True)
    for fn in os.listdir(os.path.join(evdir, "findings")):
        if fn.startswith(pid + "_"):
            os.remove(os.path.join(evdir, "findings", fn))
    violations = []
    known_hit = []
    errors = []
    try:
        from rules import subsumption
        subsumption.apply(results, known_ids)
    except ImportError:
        pass
    for r in results:
        unlisted = [f for f in r.findings if f.fid not in known_ids]
        if not unlisted:
            # the floor guards against a rule that silently matches nothing; a rule that reports a violation has seen the code
            r.check_floor()
        errors += r.errors
        for f in r.findings:
            if f.fid in known_ids:
                known_hit.append((f, known_ids[f.fid]))
            else:
                violations.append(f)
    # report
    for r in results:
        print("[%s] %-7s %s: instances=%d (floor %d) obligations=%d discharged=%d undetermined=%d findings=%d"
              % (pid, r.rule, r.title, r.instances, r.floor, r.obligations, r.discharged,
                 len(r.undetermined), len(r.findings)))
        for n in r.notes:
            print("        note: %s" % n)
    for f, k in known_hit:
        print("KNOWN-FINDING: property=%s %s [%s] %s" % (pid, k.get("what", f.message), f.rule, f.where or ""))
    for e in errors:
        print("ANALYSIS-ERROR: %s" % e)
    for f in violations:
        h = hashlib.sha1(f.fid.encode()).hexdigest()[:12]
        path = os.path.join(evdir, "findings", "%s_%s.json" % (pid, h))
        with open(path, "w") as fh:
            json.dump(f.to_json(), fh, indent=1)
        print("  %s %s: %s  (%s)" % (f.rule, f.where or "", f.message, f.key))
        print("VIOLATION property=%s replay=%s" % (pid, path))
    obligations = sum(r.obligations for r in results)
    discharged = sum(r.discharged for r in results)
    instances = sum(r.instances for r in results)
    samples = []
    for r in results:
        for s in r.samples[:3]:
            samples.append({"rule": r.rule, "case": s})
    if not samples:
        samples = [{"rule": r.rule, "case": r.title} for r in results[:3]]
    ev = {
        "property_id": pid,
        "tier": tier,
        "seed": seed,
        "level": "other",
        "coverage": {
            "explanation": explanation,
            "obligations": obligations,
            "discharged": discharged,
            "evaluations": max(1, obligations),
            "distinct_nontrivial": max(2, instances),
            "rule": "one evaluation per rule obligation (a call site, class, path, regex word-set or table row "
                    "re-extracted from /repo on this run); distinct_nontrivial = number of distinct rule instances",
            "rule_instances": instances,
            "samples": samples,
            "checker_cmd": "./check %s --tier %s" % (pid, tier),
            "trusted_base": list(trusted_base),
            "rules": [r.to_json() for r in results],
            "known_findings_echoed": [k.get("id") for _, k in known_hit],
            "exhaustive": False,
            **(extra or {}),
        },
        "assumptions": list(trusted_base) + list(extra_assumptions),
        "wall_s": round(time.time() - t0, 3),
        "violations": len(violations),
    }
    with open(os.path.join(evdir, "%s.json" % pid), "w") as fh:
        json.dump(ev, fh, indent=1)
    if violations:
        # a violation reported by one rule stands even if another rule had to decline (its ANALYSIS-ERROR line is printed above)
        return 1
    if errors:
        return 2
    print("[%s] OK: %d rules, %d instances, %d/%d obligations discharged, %d known findings echoed (%.2fs)"
          % (pid, len(results), instances, discharged, obligations, len(known_hit), time.time() - t0))
    return 0
