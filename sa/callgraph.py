"""E1 call resolution and E3 may-raise summaries (explicit raises only)."""
import ast
import builtins
import collections
import re

from . import astutil as A

WORLD_ONE = ("fparser.one", "fparser.common.base_classes", "fparser.common.utils", "fparser.api",
             "fparser.scripts")
_BUILTIN_METHODS = set()
for _t in (str, list, dict, set, tuple, frozenset, bytes, int, collections.deque, re.Pattern, re.Match,
           type(iter([])), type({}.items())):
    _BUILTIN_METHODS |= {n for n in dir(_t) if not n.startswith("__")}
_BUILTIN_METHODS |= {"getLogger", "critical", "debug", "info", "warning", "error_", "read", "close", "write",
                     "format_stack", "exists", "isfile", "dirname", "basename", "realpath", "compile"}
# 'error', 'info', 'warning' are also methods of the readers: keep them resolvable by name
_BUILTIN_METHODS -= {"error", "info", "warning"}


def world_of(modname):
    for w in WORLD_ONE:
        if modname == w or modname.startswith(w + "."):
            return "one"
    return "two"


class Target:
    __slots__ = ("kind", "func", "key", "name")

    def __init__(self, kind, func=None, key=None, name=None):
        self.kind = kind    # 'func' | 'class' | 'builtin' | 'unknown' | 'extern'
        self.func = func
        self.key = key
        self.name = name

    def __repr__(self):
        if self.kind == "func":
            return "func:%s" % self.func.qualname
        if self.kind == "class":
            return "class:%s" % (self.key.split(":")[1] if self.key else "?")
        return "%s:%s" % (self.kind, self.name)


class CallGraph:
    def __init__(self, model):
        self.m = model
        self._subclasses = {}
        for k, c in model.classes.items():
            for b in c["mro"][1:]:
                self._subclasses.setdefault(b, set()).add(k)
        # class key owning each function
        self.func_class = {}
        for k, c in model.classes.items():
            for name, d in c["own"].items():
                if d.get("file") and d.get("qualname") and d["file"] != "<string>":
                    f = model.funcs.get((d["file"], d["qualname"]))
                    if f is not None:
                        self.func_class[id(f)] = k
        # methods by name per world
        self.by_method = {"one": {}, "two": {}}
        for k, c in model.classes.items():
            w = world_of(c["module"])
            for name, d in c["own"].items():
                if d.get("kind") in ("function", "staticmethod", "classmethod") and d.get("file") not in (None, "<string>"):
                    f = model.funcs.get((d["file"], d["qualname"]))
                    if f is not None:
                        self.by_method[w].setdefault(name, []).append(f)
        self._locals_cache = {}

    def owner_class(self, finfo):
        return self.func_class.get(id(finfo))

    def locals_of(self, finfo):
        r = self._locals_cache.get(id(finfo))
        if r is None:
            names = set(A.param_names(finfo.node))
            a = finfo.node.args
            if a.vararg:
                names.add(a.vararg.arg)
            if a.kwarg:
                names.add(a.kwarg.arg)
            for n in A.body_nodes(finfo.node):
                if isinstance(n, ast.Assign):
                    for t in n.targets:
                        names.update(A.assigned_names(t))
                elif isinstance(n, (ast.AugAssign, ast.AnnAssign)):
                    names.update(A.assigned_names(n.target))
                elif isinstance(n, (ast.For, ast.comprehension)):
                    names.update(A.assigned_names(n.target))
                elif isinstance(n, ast.ExceptHandler) and n.name:
                    names.add(n.name)
                elif isinstance(n, ast.With):
                    for it in n.items:
                        if it.optional_vars is not None:
                            names.update(A.assigned_names(it.optional_vars))
                elif isinstance(n, ast.NamedExpr):
                    names.update(A.assigned_names(n.target))
            r = self._locals_cache[id(finfo)] = names
        return r

    def _ent_targets(self, ent, attr=None):
        m = self.m
        if ent is None:
            return None
        k = ent.get("kind")
        if attr is None:
            if k == "class":
                return [Target("class", key=ent["key"])]
            if k == "function":
                f = m.funcs.get((ent.get("file"), ent["qualname"])) if ent.get("file") else None
                if f is None:
                    path = m.modfile.get(ent.get("module"))
                    f = m.funcs.get((path, ent["qualname"])) if path else None
                if f is not None:
                    return [Target("func", func=f)]
                return [Target("extern", name=ent["qualname"])]
            if k == "extclass":
                return [Target("extern", name=ent["name"])]
            if k in ("regex_method",):
                return [Target("builtin", name="re." + ent["method"])]
            return None
        # attribute of an entity
        if k == "class":
            f = m.method(ent["key"], attr)
            if f is not None:
                return [Target("func", func=f)]
            if ent["key"].endswith(":DynamicImport"):
                d = m.snap["di"].get(attr)
                if d:
                    return self._ent_targets(self._di_ent(d))
            if m.is_generated_method(ent["key"], attr):
                return [Target("unknown", name="generated:%s.%s" % (ent["key"], attr))]
            return None
        if k == "module":
            sub = m.resolve_global(ent["name"], attr)
            if sub is not None:
                return self._ent_targets(sub)
            if ent["name"].startswith("fparser"):
                return None
            return [Target("extern", name=ent["name"] + "." + attr)]
        if k == "object" and ent.get("type_key"):
            f = m.method(ent["type_key"], attr)
            if f is not None:
                return [Target("func", func=f)]
            d = m.snap["di"].get(attr) if ent["type_key"].endswith(":DynamicImport") else None
            if d:
                return self._ent_targets(self._di_ent(d))
            return None
        if k in ("regex", "const", "object"):
            return [Target("builtin", name=attr)]
        return None

    def _di_ent(self, d):
        if d["kind"] == "function":
            path = self.m.modfile.get(d["module"])
            return {"kind": "function", "module": d["module"], "qualname": d["qualname"], "file": path}
        return d

    def resolve(self, finfo, call):
        """List of Targets for a Call node inside finfo (cached per call node)."""
        cache = self.__dict__.setdefault("_rc", {})
        r = cache.get(id(call))
        if r is None:
            r = self._resolve(finfo, call)
            cache[id(call)] = (call, r)
            return r
        return r[1]

    def _resolve(self, finfo, call):
        m = self.m
        f = call.func
        if isinstance(f, ast.Name):
            name = f.id
            if name in self.locals_of(finfo):
                val = self._single_assign(finfo, name)
                if isinstance(val, ast.Attribute):
                    fake = ast.Call(func=val, args=call.args, keywords=call.keywords)
                    return self._resolve(finfo, fake)
                if isinstance(val, ast.Lambda):
                    return [Target("builtin", name="lambda")]
                return [Target("unknown", name="local:" + name)]
            ent = m.resolve_name_in_func(finfo, name)
            t = self._ent_targets(ent)
            if t is not None:
                return t
            if hasattr(builtins, name):
                return [Target("builtin", name=name)]
            return [Target("unknown", name=name)]
        if isinstance(f, ast.Attribute):
            attr = f.attr
            recv = f.value
            # super().m(...)
            if isinstance(recv, ast.Call) and isinstance(recv.func, ast.Name) and recv.func.id == "super":
                own = self.owner_class(finfo)
                if own:
                    for k in m.mro(own)[1:]:
                        fi = m.method(k, attr) if attr in m.classes[k]["own"] else None
                        if fi is not None:
                            return [Target("func", func=fi)]
                    return [Target("builtin", name="super." + attr)]
            if isinstance(recv, ast.Name) and recv.id in ("self", "cls") and recv.id in A.param_names(finfo.node)[:1]:
                own = self.owner_class(finfo)
                if own:
                    out = []
                    seen = set()
                    for k in [own] + sorted(self._subclasses.get(own, ())):
                        fi = m.method(k, attr)
                        if fi is not None and id(fi) not in seen:
                            seen.add(id(fi))
                            out.append(Target("func", func=fi))
                        elif fi is None and m.is_generated_method(k, attr):
                            pass
                    if out:
                        return out
                    # attribute holding a callable (e.g. self.fifo_item.append handled below) or data
                    return self._by_name(finfo, attr)
            if isinstance(recv, ast.Call):
                # method of the result of a call into a non-fparser module (e.g. logging.getLogger(..).error)
                d2 = A.dotted(recv.func)
                if d2:
                    root = d2.split(".")[0]
                    if root not in self.locals_of(finfo):
                        ent0 = m.resolve_name_in_func(finfo, root)
                        if ent0 and ent0.get("kind") == "module" and not ent0["name"].startswith("fparser"):
                            return [Target("extern", name=d2 + "()." + attr)]
            d = A.dotted(recv)
            if d is not None:
                parts = d.split(".")
                if parts[0] not in self.locals_of(finfo) or parts[0] in ("self", "cls"):
                    ent = m.resolve_name_in_func(finfo, parts[0]) if parts[0] not in ("self", "cls") else None
                    ok = ent is not None
                    for p in parts[1:]:
                        if not ok:
                            break
                        nxt = None
                        if ent.get("kind") == "module":
                            nxt = m.resolve_global(ent["name"], p)
                            if nxt is None and (ent["name"] + "." + p) in m.modfile:
                                nxt = {"kind": "module", "name": ent["name"] + "." + p}
                            if nxt is None and not ent["name"].startswith("fparser"):
                                nxt = {"kind": "module", "name": ent["name"] + "." + p}
                        elif ent.get("kind") in ("class", "object"):
                            key = ent.get("key") or ent.get("type_key")
                            if key and key.endswith(":DynamicImport") and p in m.snap["di"]:
                                nxt = self._di_ent(m.snap["di"][p])
                        ent = nxt
                        ok = ent is not None
                    if ok:
                        t = self._ent_targets(ent, attr)
                        if t is not None:
                            return t
            return self._by_name(finfo, attr)
        return [Target("unknown", name=A.text(f))]

    def _by_name(self, finfo, attr):
        if attr in _BUILTIN_METHODS:
            return [Target("builtin", name="." + attr)]
        w = world_of(finfo.module)
        fs = self.by_method[w].get(attr, [])
        if fs:
            return [Target("func", func=x) for x in fs]
        return [Target("builtin", name="." + attr)]

    def _single_assign(self, finfo, name):
        cache = self.__dict__.setdefault("_sa", {})
        k = (id(finfo), name)
        if k not in cache:
            cache[k] = self._single_assign0(finfo, name)
        return cache[k]

    def _single_assign0(self, finfo, name):
        found = []
        for n in A.body_nodes(finfo.node):
            if isinstance(n, ast.Assign):
                for t in n.targets:
                    if isinstance(t, ast.Name) and t.id == name:
                        found.append(n.value)
                    elif name in A.assigned_names(t):
                        found.append(None)
        if name in A.param_names(finfo.node):
            return None
        if len(found) >= 1 and all(isinstance(x, (ast.Attribute, ast.Lambda)) for x in found):
            # e.g. put_item = self.fifo_item.append / lambda x: None  -> resolve the attribute form
            for x in found:
                if isinstance(x, ast.Attribute):
                    return x
            return found[0]
        return None


class MayRaise:
    """Explicitly raised exception classes that may escape a function (fixpoint over the call graph).

    Calls of rule classes (values that are fparser.two `Base` subclasses, or unknown callables held in
    parameters/locals) are summarised by `class_call`: the set of signal exceptions any construction can raise.
    """

    def __init__(self, model, cg, class_call=("NoMatchError", "FortranSyntaxError", "InternalSyntaxError")):
        self.m = model
        self.cg = cg
        self.class_call = set(class_call)
        self.summary = {}
        self._in_progress = set()
        self.base_key = model.key("Base", "fparser.two.utils")

    def exc_name(self, node):
        """Name of the exception class in a `raise` expression."""
        if node is None:
            return None
        if isinstance(node, ast.Call):
            node = node.func
        d = A.dotted(node)
        if d is None:
            return None
        return d.split(".")[-1]

    def handler_names(self, h):
        if h.type is None:
            return ["BaseException"]
        if isinstance(h.type, ast.Tuple):
            return [A.dotted(e).split(".")[-1] if A.dotted(e) else "?" for e in h.type.elts]
        d = A.dotted(h.type)
        return [d.split(".")[-1] if d else "?"]

    def caught_by(self, exc, handler_names):
        for hn in handler_names:
            if self.m.is_exc_sub(exc, hn):
                return True
        return False

    def of_target(self, t):
        if t.kind == "func":
            return self.of_func(t.func)
        if t.kind == "class":
            if t.key and self.m.issub(t.key, self.base_key):
                return set(self.class_call)
            if t.key:
                # construction of a non-rule class: its __init__
                f = self.m.method(t.key, "__init__")
                out = set()
                if f is not None:
                    out |= self.of_func(f)
                f = self.m.method(t.key, "__new__")
                if f is not None:
                    out |= self.of_func(f)
                return out
            return set(self.class_call)
        if t.kind == "unknown":
            if t.name and t.name.startswith("local:"):
                return set(self.class_call)
            return set()
        return set()

    def of_call(self, finfo, call):
        cache = self.__dict__.setdefault("_oc", {})
        r = cache.get(id(call))
        if r is not None and r[0] is call and not self._in_progress:
            return r[1]
        out = set()
        for t in self.cg.resolve(finfo, call):
            out |= self.of_target(t)
        if not self._in_progress:
            cache[id(call)] = (call, out)
        return out

    def of_func(self, finfo):
        fid = id(finfo)
        if fid in self.summary:
            return self.summary[fid]
        if fid in self._in_progress:
            return set()
        self._in_progress.add(fid)
        out = self._stmts(finfo, finfo.node.body, [])
        self._in_progress.discard(fid)
        self.summary[fid] = out
        return out

    def _expr_raises(self, finfo, node):
        out = set()
        if node is None:
            return out
        for n in A.walk_local(node):
            if isinstance(n, ast.Call):
                out |= self.of_call(finfo, n)
        return out

    def _stmts(self, finfo, body, handler_stack):
        out = set()
        for s in body:
            out |= self._stmt(finfo, s, handler_stack)
        return out

    def _stmt(self, finfo, s, hs):
        out = set()
        if isinstance(s, ast.Raise):
            if s.exc is None:
                # bare re-raise: whatever the enclosing handler caught
                if hs:
                    out |= set(hs[-1])
            else:
                n = self.exc_name(s.exc)
                if n and n in hs_names(hs):
                    pass
                if n:
                    # `raise err` where err is the handler variable
                    if isinstance(s.exc, ast.Name) and hs and s.exc.id in getattr(hs[-1], "varnames", ()):
                        out |= set(hs[-1])
                    else:
                        out.add(n)
                out |= self._expr_raises(finfo, s.exc)
            return out
        if isinstance(s, ast.Try):
            body_r = self._stmts(finfo, s.body, hs)
            remaining = set()
            for e in body_r:
                caught = False
                for h in s.handlers:
                    if self.caught_by(e, self.handler_names(h)):
                        caught = True
                        break
                if not caught:
                    remaining.add(e)
            out |= remaining
            for h in s.handlers:
                hn = self.handler_names(h)
                caught_here = HandlerCtx(e for e in body_r if self.caught_by(e, hn))
                # which exceptions this handler actually receives (first matching handler wins)
                recv = set()
                for e in body_r:
                    for h2 in s.handlers:
                        if self.caught_by(e, self.handler_names(h2)):
                            if h2 is h:
                                recv.add(e)
                            break
                ctx = HandlerCtx(recv)
                if h.name:
                    ctx.varnames = (h.name,)
                out |= self._stmts(finfo, h.body, hs + [ctx])
            out |= self._stmts(finfo, s.orelse, hs)
            out |= self._stmts(finfo, s.finalbody, hs)
            return out
        if isinstance(s, (ast.FunctionDef, ast.AsyncFunctionDef, ast.ClassDef)):
            return out
        # compound statements
        for field in ("test", "iter", "value", "targets", "target", "items", "exc", "msg"):
            v = getattr(s, field, None)
            if v is None:
                continue
            if isinstance(v, list):
                for x in v:
                    if isinstance(x, ast.withitem):
                        out |= self._expr_raises(finfo, x.context_expr)
                    elif isinstance(x, ast.AST):
                        out |= self._expr_raises(finfo, x)
            elif isinstance(v, ast.AST):
                out |= self._expr_raises(finfo, v)
        if isinstance(s, ast.Assert):
            pass
        for field in ("body", "orelse"):
            v = getattr(s, field, None)
            if isinstance(v, list) and v and isinstance(v[0], ast.stmt):
                out |= self._stmts(finfo, v, hs)
        if isinstance(s, ast.Match):
            for c in s.cases:
                out |= self._stmts(finfo, c.body, hs)
        return out


class HandlerCtx(set):
    varnames = ()


def hs_names(hs):
    out = set()
    for h in hs:
        out |= set(h)
    return out
