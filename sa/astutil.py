"""Small AST helpers shared by the rules."""
import ast


def text(node):
    """Normalised source text of a node (formatting-independent)."""
    if node is None:
        return "None"
    try:
        return ast.unparse(node)
    except Exception:  # pragma: no cover
        return "<%s>" % type(node).__name__


def walk_local(node, include_self=True):
    """ast.walk that does not descend into nested function/class/lambda bodies."""
    todo = [node] if include_self else list(ast.iter_child_nodes(node))
    first = True
    while todo:
        n = todo.pop()
        yield n
        for c in ast.iter_child_nodes(n):
            if isinstance(c, (ast.FunctionDef, ast.AsyncFunctionDef, ast.ClassDef, ast.Lambda)):
                continue
            todo.append(c)


def body_nodes(func):
    """All nodes in a function body, not descending into nested defs (but the def's own body)."""
    for stmt in func.body:
        for n in walk_local(stmt):
            yield n


def calls(func_or_node):
    if isinstance(func_or_node, (ast.FunctionDef, ast.AsyncFunctionDef)):
        it = body_nodes(func_or_node)
    else:
        it = walk_local(func_or_node)
    for n in it:
        if isinstance(n, ast.Call):
            yield n


def call_name(call):
    """Dotted name of the callee ('a.b.c') or None."""
    return dotted(call.func)


def dotted(node):
    parts = []
    while isinstance(node, ast.Attribute):
        parts.append(node.attr)
        node = node.value
    if isinstance(node, ast.Name):
        parts.append(node.id)
        return ".".join(reversed(parts))
    return None


def const(node, default=None):
    if isinstance(node, ast.Constant):
        return node.value
    return default


def is_const(node, value=None):
    if not isinstance(node, ast.Constant):
        return False
    return value is None or node.value == value


def bind(call, params, skip=0):
    """Bind a Call's arguments to parameter names.  params: list of names in
    positional order.  Returns dict name -> node (missing => absent).  Starred
    arguments make the binding unknown -> returns None."""
    out = {}
    names = list(params)[skip:]
    for i, a in enumerate(call.args):
        if isinstance(a, ast.Starred):
            return None
        if i >= len(names):
            return None
        out[names[i]] = a
    for kw in call.keywords:
        if kw.arg is None:
            return None
        out[kw.arg] = kw.value
    return out


def param_names(func):
    a = func.args
    return [x.arg for x in a.posonlyargs + a.args] + [x.arg for x in a.kwonlyargs]


def param_defaults(func):
    """name -> default node"""
    a = func.args
    pos = a.posonlyargs + a.args
    out = {}
    for p, d in zip(pos[len(pos) - len(a.defaults):], a.defaults):
        out[p.arg] = d
    for p, d in zip(a.kwonlyargs, a.kw_defaults):
        if d is not None:
            out[p.arg] = d
    return out


def names_in(node):
    return {n.id for n in walk_local(node) if isinstance(n, ast.Name)}


def assigned_names(target):
    out = []
    if isinstance(target, ast.Name):
        out.append(target.id)
    elif isinstance(target, (ast.Tuple, ast.List)):
        for e in target.elts:
            out += assigned_names(e)
    elif isinstance(target, ast.Starred):
        out += assigned_names(target.value)
    return out


def returns(func):
    return [n for n in body_nodes(func) if isinstance(n, ast.Return)]


def raises(func):
    return [n for n in body_nodes(func) if isinstance(n, ast.Raise)]


def strip_docstring(body):
    if body and isinstance(body[0], ast.Expr) and isinstance(body[0].value, ast.Constant) \
            and isinstance(body[0].value.value, str):
        return body[1:]
    return body


def parents(root):
    """child -> parent map"""
    m = {}
    for n in ast.walk(root):
        for c in ast.iter_child_nodes(n):
            m[c] = n
    return m
