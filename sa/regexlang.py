"""E6 helpers on regex literals: finite-language enumeration over the sre parse tree."""
import re
try:
    import re._parser as sre_parse      # Python >= 3.11
    import re._constants as sre_c
except ImportError:                     # pragma: no cover
    import sre_parse
    import sre_constants as sre_c


def finite_language(pattern, flags=0, limit=5000):
    """The set of words matched by `pattern` when that set is finite and small, else None.
    Anchors and word boundaries are ignored; case-insensitive patterns yield upper-case words."""
    try:
        tree = sre_parse.parse(pattern, flags)
    except re.error:
        return None

    def seq(items):
        words = {""}
        for op, av in items:
            part = node(op, av)
            if part is None:
                return None
            words = {a + b for a in words for b in part}
            if len(words) > limit:
                return None
        return words

    def node(op, av):
        if op == sre_c.LITERAL:
            return {chr(av)}
        if op == sre_c.AT:
            return {""}
        if op == sre_c.SUBPATTERN:
            return seq(av[-1])
        if op == sre_c.BRANCH:
            out = set()
            for alt in av[1]:
                s = seq(alt)
                if s is None:
                    return None
                out |= s
            return out
        if op == sre_c.IN:
            out = set()
            for o, a in av:
                if o == sre_c.LITERAL:
                    out.add(chr(a))
                elif o == sre_c.RANGE and a[1] - a[0] < 40:
                    out |= {chr(c) for c in range(a[0], a[1] + 1)}
                else:
                    return None
            return out
        if op in (sre_c.MAX_REPEAT, sre_c.MIN_REPEAT):
            lo, hi, sub = av
            if hi > 3:
                # \s* and friends: treat optional blanks as absent (canonical spelling)
                s = seq(sub)
                if s is not None and all(w.isspace() or w == "" for w in s):
                    return {""} if lo == 0 else {" " * lo}
                return None
            s = seq(sub)
            if s is None:
                return None
            out = set()
            for n in range(lo, hi + 1):
                cur = {""}
                for _ in range(n):
                    cur = {a + b for a in cur for b in s}
                out |= cur
            return out
        if op == sre_c.ASSERT or op == sre_c.ASSERT_NOT:
            return {""}
        if op == sre_c.CATEGORY:
            return None
        return None
    words = seq(tree)
    if words is None:
        return None
    if flags & re.I:
        words = {w.upper() for w in words}
    return words


# ------------------------------------------------------------------------------------------------
# prefix viability: can `prefix` be extended to a string that the pattern matches (re.match semantics)?
# ------------------------------------------------------------------------------------------------
def viable_prefix(pattern, flags, prefix):
    """True if some string starting with `prefix` is matched by re.match(pattern): a continuation-passing matcher over
    the sre parse tree that answers True as soon as the input is exhausted inside the pattern.  Look-arounds and
    back-references are over-approximated as satisfiable."""
    try:
        tree = sre_parse.parse(pattern, flags)
    except re.error:
        return None
    ci = bool(flags & re.I)
    text = prefix.lower() if ci else prefix
    n = len(text)
    budget = [200000]

    def cat(code, ch):
        name = str(code)
        if "DIGIT" in name:
            r = ch.isdigit()
        elif "SPACE" in name:
            r = ch.isspace()
        elif "WORD" in name:
            r = ch.isalnum() or ch == "_"
        else:
            return True
        return (not r) if "NOT" in name else r

    def in_set(av, ch):
        neg = False
        hit = False
        for o, a in av:
            if o == sre_c.NEGATE:
                neg = True
            elif o == sre_c.LITERAL:
                c = chr(a)
                if (c.lower() if ci else c) == ch:
                    hit = True
            elif o == sre_c.RANGE:
                lo, hi = a
                if lo <= ord(ch) <= hi or (ci and (lo <= ord(ch.upper()) <= hi or lo <= ord(ch.lower()) <= hi)):
                    hit = True
            elif o == sre_c.CATEGORY:
                if cat(a, ch):
                    hit = True
        return hit != neg

    def m_seq(items, idx, pos, k):
        budget[0] -= 1
        if budget[0] < 0:
            return True     # give up: viable (never a false alarm)
        if pos >= n:
            return True     # input exhausted inside the pattern -> viable
        if idx == len(items):
            return k(pos)
        op, av = items[idx]
        nxt = lambda p: m_seq(items, idx + 1, p, k)
        if op == sre_c.LITERAL:
            c = chr(av)
            return (c.lower() if ci else c) == text[pos] and nxt(pos + 1)
        if op == sre_c.NOT_LITERAL:
            c = chr(av)
            return (c.lower() if ci else c) != text[pos] and nxt(pos + 1)
        if op == sre_c.ANY:
            return text[pos] != "\n" and nxt(pos + 1)
        if op == sre_c.IN:
            return in_set(av, text[pos]) and nxt(pos + 1)
        if op == sre_c.CATEGORY:
            return cat(av, text[pos]) and nxt(pos + 1)
        if op == sre_c.AT:
            name = str(av)
            if "BEGINNING" in name:
                return pos == 0 and nxt(pos)
            if "END" in name:
                return False if pos < n else nxt(pos)
            if "BOUNDARY" in name:
                a = pos > 0 and (text[pos - 1].isalnum() or text[pos - 1] == "_")
                b = pos < n and (text[pos].isalnum() or text[pos] == "_")
                isb = a != b
                if "NON" in name:
                    isb = not isb
                return isb and nxt(pos)
            return nxt(pos)
        if op == sre_c.SUBPATTERN:
            return m_seq(list(av[-1]), 0, pos, nxt)
        if op == sre_c.BRANCH:
            return any(m_seq(list(alt), 0, pos, nxt) for alt in av[1])
        if op in (sre_c.MAX_REPEAT, sre_c.MIN_REPEAT):
            lo, hi, sub = av
            sub = list(sub)

            def rep(count, p):
                if p >= n:
                    return True
                if count >= lo and nxt(p):
                    return True
                if count < hi and count < n + 2:
                    return m_seq(sub, 0, p, lambda q: q > p and rep(count + 1, q) or (q == p and count + 1 >= lo and nxt(q)))
                return False
            return rep(0, pos)
        if op in (sre_c.ASSERT, sre_c.ASSERT_NOT, sre_c.GROUPREF, sre_c.GROUPREF_EXISTS):
            return nxt(pos) if op in (sre_c.ASSERT, sre_c.ASSERT_NOT) else True
        return True   # unknown construct: viable
    return m_seq(list(tree), 0, 0, lambda p: True)   # re.match does not anchor at the end
