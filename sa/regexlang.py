"""E6 helpers on regex literals: finite-language enumeration over the sre parse tree."""
import re
try:
    import re._parser as sre_parse      # Python >= 3.11
    import re._constants as sre_c
except ImportError:                     # pragma: no cover
    import sre_parse
    import sre_constants as sre_c


def finite_language(pattern, flags=0, limit=5000):
    """The set of words matched by `pattern` when that set is finite and small, else None.
    Anchors and word boundaries are ignored; case-insensitive patterns yield upper-case words."""
    try:
        tree = sre_parse.parse(pattern, flags)
    except re.error:
        return None

    def seq(items):
        words = {""}
        for op, av in items:
            part = node(op, av)
            if part is None:
                return None
            words = {a + b for a in words for b in part}
            if len(words) > limit:
                return None
        return words

    def node(op, av):
        if op == sre_c.LITERAL:
            return {chr(av)}
        if op == sre_c.AT:
            return {""}
        if op == sre_c.SUBPATTERN:
            return seq(av[-1])
        if op == sre_c.BRANCH:
            out = set()
            for alt in av[1]:
                s = seq(alt)
                if s is None:
                    return None
                out |= s
            return out
        if op == sre_c.IN:
            out = set()
            for o, a in av:
                if o == sre_c.LITERAL:
                    out.add(chr(a))
                elif o == sre_c.RANGE and a[1] - a[0] < 40:
                    out |= {chr(c) for c in range(a[0], a[1] + 1)}
                else:
                    return None
            return out
        if op in (sre_c.MAX_REPEAT, sre_c.MIN_REPEAT):
            lo, hi, sub = av
            if hi > 3:
                # \s* and friends: treat optional blanks as absent (canonical spelling)
                s = seq(sub)
                if s is not None and all(w.isspace() or w == "" for w in s):
                    return {""} if lo == 0 else {" " * lo}
                return None
            s = seq(sub)
            if s is None:
                return None
            out = set()
            for n in range(lo, hi + 1):
                cur = {""}
                for _ in range(n):
                    cur = {a + b for a in cur for b in s}
                out |= cur
            return out
        if op == sre_c.ASSERT or op == sre_c.ASSERT_NOT:
            return {""}
        if op == sre_c.CATEGORY:
            return None
        return None
    words = seq(tree)
    if words is None:
        return None
    if flags & re.I:
        words = {w.upper() for w in words}
    return words
