"""E2: syntax-directed, path-sensitive abstract interpreter over one Python function.

The abstract state is an environment  variable -> frozenset of atoms:
    ('c', v)       the Python constant v (None, bool, str, int)
    ('cls', key)   the class object `key`
    ('inst', key)  an instance of exactly class `key`
    ('truthy',)    some unknown truthy value
    ('falsy',)     some unknown falsy value (possibly None)
    ('top',)       unknown
Pseudo-variables (names starting with '$') carry client typestate.  Sets of states are propagated through
if/while/for/try/with/return/raise/break/continue; loops are solved by fixpoint over the (finite) state sets,
so there is no path enumeration.  Exception edges come from the client's call_raises() (E3 summaries) and from
explicit `raise` statements; handlers are matched with the real exception class hierarchy.
"""
import ast

from . import astutil as A
from .model import AnalysisError

TOP = frozenset([("top",)])
NONE = frozenset([("c", None)])
TRUE = frozenset([("c", True)])
FALSE = frozenset([("c", False)])
TRUTHY = frozenset([("truthy",)])
FALSY = frozenset([("falsy",)])


def const(v):
    return frozenset([("c", v)])


def cls_val(*keys):
    return frozenset(("cls", k) for k in keys)


def inst_val(keys, or_none=False):
    s = set(("inst", k) for k in keys)
    if or_none:
        s.add(("c", None))
    return frozenset(s)


class State:
    __slots__ = ("env", "_h")

    def __init__(self, env):
        self.env = env
        self._h = None

    def get(self, name):
        return self.env.get(name, TOP)

    def set(self, name, val):
        e = dict(self.env)
        if val == TOP and not name.startswith("$"):
            e.pop(name, None)
        else:
            e[name] = val
        return State(e)

    def __hash__(self):
        if self._h is None:
            self._h = hash(frozenset(self.env.items()))
        return self._h

    def __eq__(self, other):
        return self.env == other.env

    def __repr__(self):
        return "{%s}" % ", ".join("%s=%s" % (k, fmt(v)) for k, v in sorted(self.env.items()))


def fmt(val):
    out = []
    for a in sorted(val, key=repr):
        if a[0] == "c":
            out.append(repr(a[1]))
        elif a[0] in ("cls", "inst"):
            out.append("%s:%s" % (a[0], a[1].split(":")[1]))
        else:
            out.append(a[0])
    return "|".join(out)


class Outcome:
    def __init__(self):
        self.normal = set()
        self.brk = set()
        self.cont = set()
        self.ret = set()     # (state, Return node)
        self.exc = set()     # (state, exc class name, node)

    def absorb(self, other, normal=True):
        if normal:
            self.normal |= other.normal
        self.brk |= other.brk
        self.cont |= other.cont
        self.ret |= other.ret
        self.exc |= other.exc


class Client:
    """Default client: no call effects, no raises."""
    track = None          # set of variable names to track, or None for all

    def call_raises(self, call, state):
        return ()

    def call_effect(self, call, state):
        """Return an iterable of successor states after the call returned normally."""
        return (state,)

    def call_value(self, call, state):
        return TOP

    def on_stmt(self, stmt, state):
        """Hook called before a simple statement executes in `state`."""


class Flow:
    MAX_STATES = 20000

    def __init__(self, model, finfo, client):
        self.m = model
        self.f = finfo
        self.c = client
        self.count = 0

    # ---------------------------------------------------------------- values
    def eval(self, node, st):
        if node is None:
            return NONE
        if isinstance(node, ast.Constant):
            if isinstance(node.value, (str, int, bool, type(None))):
                return const(node.value)
            return TOP
        if isinstance(node, ast.Name):
            if node.id in st.env:
                return st.env[node.id]
            if self.c.track is not None and node.id in self.c.track:
                return TOP
            k = self.m.class_of_name(self.f, node.id)
            if k and node.id not in self._locals():
                return cls_val(k)
            return TOP
        if isinstance(node, ast.Attribute):
            d = A.dotted(node)
            if d:
                parts = d.split(".")
                if parts[0] in ("di", "DynamicImport") and len(parts) == 2:
                    ent = self.m.snap["di"].get(parts[1])
                    if ent and ent["kind"] == "class":
                        return cls_val(ent["key"])
            return TOP
        if isinstance(node, ast.Call):
            hv = self.c.expr_value(node, st) if hasattr(self.c, "expr_value") else None
            if hv is not None:
                return hv
            return self.c.call_value(node, st)
        if isinstance(node, ast.BinOp):
            hv = self.c.expr_value(node, st) if hasattr(self.c, "expr_value") else None
            return hv if hv is not None else TOP
        if isinstance(node, ast.UnaryOp) and isinstance(node.op, ast.Not):
            t, f = self.truth_vals(self.eval(node.operand, st))
            out = set()
            if t:
                out.add(("c", False))
            if f:
                out.add(("c", True))
            return frozenset(out)
        if isinstance(node, ast.IfExp):
            # the branches are evaluated in the state refined by the test (`x if x else ""` is never None)
            if not any(isinstance(n, ast.Call) for n in ast.walk(node.test)):
                ts, fs = self.split(node.test, st)
                vals = frozenset()
                for s2 in ts:
                    vals |= self.eval(node.body, s2)
                for s2 in fs:
                    vals |= self.eval(node.orelse, s2)
                if ts or fs:
                    return vals
            return self.eval(node.body, st) | self.eval(node.orelse, st)
        if isinstance(node, (ast.JoinedStr,)):
            return TOP
        if isinstance(node, (ast.List, ast.Tuple, ast.Dict, ast.Set)):
            hv = self.c.expr_value(node, st) if hasattr(self.c, "expr_value") else None
            if hv is not None:
                return hv
            if isinstance(node, (ast.List, ast.Tuple)) and not node.elts:
                return FALSY
            if isinstance(node, (ast.List, ast.Tuple)):
                return TRUTHY
            return TOP
        if isinstance(node, ast.BoolOp):
            vals = frozenset()
            for v in node.values:
                vals |= self.eval(v, st)
            return vals
        return TOP

    @staticmethod
    def truth_vals(val):
        """(may be truthy, may be falsy)"""
        t = f = False
        for a in val:
            if a[0] == "c":
                if a[1]:
                    t = True
                else:
                    f = True
            elif a[0] in ("cls", "inst", "truthy"):
                t = True
            elif a[0] == "falsy":
                f = True
            else:
                t = f = True
        return t, f

    _loc = None

    def _locals(self):
        if self._loc is None:
            from .callgraph import CallGraph
            names = set(A.param_names(self.f.node))
            for n in A.body_nodes(self.f.node):
                if isinstance(n, ast.Assign):
                    for t in n.targets:
                        names.update(A.assigned_names(t))
                elif isinstance(n, (ast.AugAssign, ast.AnnAssign)):
                    names.update(A.assigned_names(n.target))
                elif isinstance(n, (ast.For, ast.comprehension)):
                    names.update(A.assigned_names(n.target))
            self._loc = names
        return self._loc

    # ---------------------------------------------------------------- conditions
    def split(self, test, st, out=None):
        """Return (set of states where test is true, set where false).  Calls inside the test are processed
        lazily, operand by operand, so that short-circuit evaluation is respected; their exception edges go to
        `out` (an Outcome) when given."""
        if isinstance(test, ast.BoolOp):
            if isinstance(test.op, ast.And):
                trues, falses = {st}, set()
                for v in test.values:
                    nt = set()
                    for s in trues:
                        a, b = self.split(v, s, out)
                        nt |= a
                        falses |= b
                    trues = nt
                return trues, falses
            trues, falses = set(), {st}
            for v in test.values:
                nf = set()
                for s in falses:
                    a, b = self.split(v, s, out)
                    trues |= a
                    nf |= b
                falses = nf
            return trues, falses
        if isinstance(test, ast.UnaryOp) and isinstance(test.op, ast.Not):
            a, b = self.split(test.operand, st, out)
            return b, a
        # leaf: run the calls it contains first
        if out is not None and any(isinstance(n, ast.Call) for n in ast.walk(test)):
            sts = self.do_calls(test, {st}, out)
            ts, fs = set(), set()
            for s2 in sts:
                a, b = self.split_leaf(test, s2)
                ts |= a
                fs |= b
            return ts, fs
        return self.split_leaf(test, st)

    def split_leaf(self, test, st):
        if isinstance(test, ast.Name):
            val = self.eval(test, st)
            tv, fv = set(), set()
            for a in val:
                if a[0] == "c":
                    (tv if a[1] else fv).add(a)
                elif a[0] in ("cls", "inst", "truthy"):
                    tv.add(a)
                elif a[0] == "falsy":
                    fv.add(a)
                else:
                    tv.add(("truthy",))
                    fv.add(("falsy",))
            return self._refined(st, test.id, tv), self._refined(st, test.id, fv)
        if isinstance(test, ast.Compare) and len(test.ops) == 1:
            op = test.ops[0]
            left, right = test.left, test.comparators[0]
            if isinstance(op, (ast.Is, ast.IsNot)) and isinstance(right, ast.Constant) and right.value is None:
                val = self.eval(left, st)
                isn, notn = set(), set()
                for a in val:
                    if a == ("c", None):
                        isn.add(a)
                    elif a[0] in ("top",):
                        isn.add(("c", None))
                        notn.add(("top",))
                    elif a[0] == "falsy":
                        isn.add(("c", None))
                        notn.add(a)
                    else:
                        notn.add(a)
                name = left.id if isinstance(left, ast.Name) else None
                t, f = self._refined(st, name, isn, bool(isn)), self._refined(st, name, notn, bool(notn))
                return (t, f) if isinstance(op, ast.Is) else (f, t)
            if isinstance(op, (ast.Is, ast.IsNot, ast.In, ast.NotIn, ast.Eq, ast.NotEq)):
                lv = self.eval(left, st)
                if isinstance(op, (ast.In, ast.NotIn)) and isinstance(right, (ast.Tuple, ast.List)):
                    rvs = [self.eval(e, st) for e in right.elts]
                else:
                    rvs = [self.eval(right, st)]
                res = self._eq_atoms(lv, rvs)
                if res is not None:
                    tv, fv = res
                    name = left.id if isinstance(left, ast.Name) else None
                    t = self._refined(st, name, tv, bool(tv))
                    f = self._refined(st, name, fv, bool(fv))
                    if isinstance(op, (ast.IsNot, ast.NotIn, ast.NotEq)):
                        return f, t
                    return t, f
            return {st}, {st}
        if isinstance(test, ast.Call):
            fn = A.dotted(test.func)
            if fn == "isinstance" and len(test.args) == 2:
                val = self.eval(test.args[0], st)
                cv = self._class_tuple(test.args[1], st)
                if cv is not None:
                    tv, fv = set(), set()
                    for a in val:
                        if a[0] == "inst":
                            if any(self.m.issub(a[1], c) for c in cv):
                                tv.add(a)
                            else:
                                fv.add(a)
                        elif a[0] in ("c", "cls", "falsy"):
                            fv.add(a)
                        else:
                            tv.add(a)
                            fv.add(a)
                    name = test.args[0].id if isinstance(test.args[0], ast.Name) else None
                    return self._refined(st, name, tv, bool(tv)), self._refined(st, name, fv, bool(fv))
                return {st}, {st}
            if fn == "hasattr" and len(test.args) == 2 and isinstance(test.args[1], ast.Constant):
                val = self.eval(test.args[0], st)
                attr = test.args[1].value
                tv, fv = set(), set()
                for a in val:
                    if a[0] in ("inst", "cls"):
                        (tv if self.m.has_attr(a[1], attr) else fv).add(a)
                    elif a[0] == "c":
                        fv.add(a)
                    else:
                        tv.add(a)
                        fv.add(a)
                name = test.args[0].id if isinstance(test.args[0], ast.Name) else None
                return self._refined(st, name, tv, bool(tv)), self._refined(st, name, fv, bool(fv))
            val = self.eval(test, st)
            t, f = self.truth_vals(val)
            return ({st} if t else set()), ({st} if f else set())
        if isinstance(test, ast.Constant):
            return ({st}, set()) if test.value else (set(), {st})
        val = self.eval(test, st)
        t, f = self.truth_vals(val)
        return ({st} if t else set()), ({st} if f else set())

    def _class_tuple(self, node, st):
        """class keys denoted by an isinstance second argument, or None if unknown."""
        if isinstance(node, (ast.Tuple, ast.List)):
            out = []
            for e in node.elts:
                r = self._class_tuple(e, st)
                if r is None:
                    return None
                out += r
            return out
        val = self.eval(node, st)
        keys = []
        for a in val:
            if a[0] == "cls":
                keys.append(a[1])
            elif a[0] == "clsset":
                keys += list(a[1])
            elif a[0] == "falsy" and len(val) == 1:
                pass
            else:
                return None
        return keys

    def _eq_atoms(self, lv, rvs):
        """Decide identity/equality of each left atom against the right values; None if undecidable."""
        tv, fv = set(), set()
        for a in lv:
            if a[0] not in ("c", "cls"):
                tv.add(a)
                fv.add(a)
                continue
            may_eq = may_ne = False
            for rv in rvs:
                for b in rv:
                    if b[0] in ("c", "cls"):
                        if a == b:
                            may_eq = True
                        else:
                            may_ne = True
                    else:
                        may_eq = may_ne = True
            # `in`: true if equal to any; false only if unequal to all
            definitely_in = any(len(rv) == 1 and a in rv for rv in rvs)
            possibly_in = may_eq
            if definitely_in:
                tv.add(a)
            elif possibly_in:
                tv.add(a)
                fv.add(a)
            else:
                fv.add(a)
        return tv, fv

    def _refined(self, st, name, atoms, feasible=None):
        if feasible is None:
            feasible = bool(atoms)
        if not feasible:
            return set()
        if name is None or (self.c.track is not None and name not in self.c.track):
            return {st}
        return {st.set(name, frozenset(atoms))}

    # ---------------------------------------------------------------- statements
    def run(self, init):
        out = self.block(self.f.node.body, {init}, None)
        # falling off the end = return None
        for s in out.normal:
            out.ret.add((s, None))
        return out

    def _tick(self, n=1):
        self.count += n
        if self.count > self.MAX_STATES:
            raise AnalysisError("flow analysis of %s exceeded %d states" % (self.f.qualname, self.MAX_STATES))

    def block(self, stmts, states, cur_exc):
        out = Outcome()
        cur = set(states)
        for s in stmts:
            if not cur:
                break
            r = self.stmt(s, cur, cur_exc)
            out.absorb(r, normal=False)
            cur = r.normal
        out.normal = cur
        return out

    def calls_in_order(self, node):
        res = []

        def visit(n):
            if isinstance(n, (ast.Lambda, ast.FunctionDef, ast.AsyncFunctionDef, ast.ClassDef)):
                return
            for c in ast.iter_child_nodes(n):
                visit(c)
            if isinstance(n, ast.Call):
                res.append(n)
        if node is not None:
            visit(node)
        return res

    def do_calls(self, node, states, out):
        """Process raises and effects of all calls in an expression; returns successor states."""
        cur = set(states)
        for call in self.calls_in_order(node):
            nxt = set()
            for st in cur:
                for e in self.c.call_raises(call, st):
                    if isinstance(e, tuple):      # (exception name, state on the exception edge)
                        out.exc.add((e[1], e[0], call))
                    else:
                        out.exc.add((st, e, call))
                for s2 in self.c.call_effect(call, st):
                    nxt.add(s2)
            cur = nxt
            self._tick(len(cur))
        return cur

    def evalx(self, node, states, out):
        """Lazy evaluation of an expression: returns a set of (state, value), processing the calls of `A or B`,
        `A and B` and `X if C else Y` only on the paths on which Python would evaluate them."""
        res = set()
        if isinstance(node, ast.BoolOp):
            cur = {(st, None) for st in states}
            pending = set(states)
            final = set()
            for i, v in enumerate(node.values):
                last = i == len(node.values) - 1
                nxt = set()
                for st2, val in self.evalx(v, pending, out):
                    t, f = self.truth_vals(val)
                    is_or = isinstance(node.op, ast.Or)
                    stop, go = (t, f) if is_or else (f, t)
                    if last:
                        final.add((st2, val))
                        continue
                    if stop:
                        keep = frozenset(a for a in val if (self.truth_vals(frozenset([a]))[0] if is_or else self.truth_vals(frozenset([a]))[1]))
                        final.add((st2, keep or val))
                    if go:
                        nxt.add(st2)
                pending = nxt
                if not pending:
                    break
            return final
        if isinstance(node, ast.IfExp):
            ts, fs = set(), set()
            for st in states:
                a, b = self.split(node.test, st, out)
                ts |= a
                fs |= b
            return self.evalx(node.body, ts, out) | self.evalx(node.orelse, fs, out)
        if isinstance(node, ast.Call):
            cur = set(states)
            # arguments first
            for a in list(node.args) + [k.value for k in node.keywords]:
                cur = {st for st, _ in self.evalx(a, cur, out)}
            if isinstance(node.func, ast.Attribute):
                cur = {st for st, _ in self.evalx(node.func.value, cur, out)}
            for st in cur:
                for e in self.c.call_raises(node, st):
                    out.exc.add((st, e, node))
                for s2 in self.c.call_effect(node, st):
                    res.add((s2, self.eval(node, s2)))
            self._tick(len(res))
            return res
        cur = self.do_calls(node, states, out)
        return {(st, self.eval(node, st)) for st in cur}

    def assign(self, target, value_node, st, val=None):
        if isinstance(target, ast.Name):
            if self.c.track is not None and target.id not in self.c.track:
                return st
            v = self.eval(value_node, st) if val is None else val
            return st.set(target.id, v)
        if isinstance(target, (ast.Tuple, ast.List)):
            if isinstance(value_node, (ast.Tuple, ast.List)) and len(value_node.elts) == len(target.elts):
                # evaluate all rhs in the old state first
                vals = [self.eval(e, st) for e in value_node.elts]
                for t, v in zip(target.elts, vals):
                    st = self.assign(t, None, st, v)
                return st
            for t in target.elts:
                st = self.assign(t, None, st, TOP)
            return st
        return st

    def stmt(self, s, states, cur_exc):
        out = self._stmt(s, states, cur_exc)
        if isinstance(s, (ast.Expr, ast.Assign, ast.AugAssign, ast.AnnAssign)) and hasattr(self.c, "stmt_effect"):
            out.normal = {self.c.stmt_effect(s, st) for st in out.normal}
        return out

    def _stmt(self, s, states, cur_exc):
        out = Outcome()
        self._tick(len(states))
        if isinstance(s, (ast.FunctionDef, ast.AsyncFunctionDef, ast.ClassDef, ast.Import, ast.ImportFrom,
                          ast.Pass, ast.Global, ast.Nonlocal)):
            out.normal = set(states)
            return out
        if isinstance(s, ast.Expr):
            for st in states:
                self.c.on_stmt(s, st)
            out.normal = self.do_calls(s.value, states, out)
            return out
        if isinstance(s, ast.Assign):
            for st in states:
                self.c.on_stmt(s, st)
            if getattr(self.c, "lazy_expr", False) and len(s.targets) == 1 and isinstance(s.targets[0], ast.Name):
                for st, val in self.evalx(s.value, states, out):
                    out.normal.add(self.assign(s.targets[0], None, st, val))
                return out
            cur = self.do_calls(s.value, states, out)
            for st in cur:
                for t in s.targets:
                    st = self.assign(t, s.value, st)
                out.normal.add(st)
            return out
        if isinstance(s, ast.AnnAssign):
            cur = self.do_calls(s.value, states, out)
            for st in cur:
                if s.value is not None:
                    st = self.assign(s.target, s.value, st)
                out.normal.add(st)
            return out
        if isinstance(s, ast.AugAssign):
            cur = self.do_calls(s.value, states, out)
            for st in cur:
                if isinstance(s.target, ast.Name):
                    # x |= y on booleans keeps being a bool; anything else -> TOP
                    st = self.assign(s.target, None, st, TOP)
                out.normal.add(st)
            return out
        if isinstance(s, ast.Return):
            if getattr(self.c, "lazy_expr", False) and s.value is not None:
                for st, val in self.evalx(s.value, states, out):
                    self.c.on_stmt(s, st)
                    out.ret.add((st.set("$ret", val), s))
                return out
            cur = self.do_calls(s.value, states, out)
            for st in cur:
                self.c.on_stmt(s, st)
                out.ret.add((st, s))
            return out
        if isinstance(s, ast.Raise):
            cur = self.do_calls(s.exc, states, out)
            for st in cur:
                self.c.on_stmt(s, st)
                if s.exc is None or (isinstance(s.exc, ast.Name) and cur_exc and s.exc.id == cur_exc[1]):
                    if cur_exc is None:
                        out.exc.add((st, "BaseException", s))
                    else:
                        # a re-raise keeps the node at which the exception originated
                        out.exc.add((st, cur_exc[0], cur_exc[2] if cur_exc[2] is not None else s))
                else:
                    e = s.exc.func if isinstance(s.exc, ast.Call) else s.exc
                    d = A.dotted(e)
                    out.exc.add((st, d.split(".")[-1] if d else "Exception", s))
            return out
        if isinstance(s, ast.Assert):
            out.normal = self.do_calls(s.test, states, out)
            return out
        if isinstance(s, ast.Delete):
            out.normal = set(states)
            return out
        if isinstance(s, ast.Break):
            out.brk = set(states)
            return out
        if isinstance(s, ast.Continue):
            out.cont = set(states)
            return out
        if isinstance(s, ast.If):
            ts, fs = set(), set()
            for st in states:
                a, b = self.split(s.test, st, out)
                ts |= a
                fs |= b
            r1 = self.block(s.body, ts, cur_exc)
            r2 = self.block(s.orelse, fs, cur_exc)
            out.absorb(r1)
            out.absorb(r2)
            return out
        if isinstance(s, ast.While):
            seen = set()
            work = set(states)
            exits = set()
            while work:
                new = work - seen
                if not new:
                    break
                seen |= new
                ts, fs = set(), set()
                for st in new:
                    a, b = self.split(s.test, st, out)
                    ts |= a
                    fs |= b
                exits |= fs
                r = self.block(s.body, ts, cur_exc)
                out.ret |= r.ret
                out.exc |= r.exc
                exits |= r.brk
                work = r.normal | r.cont
            if s.orelse:
                r = self.block(s.orelse, exits, cur_exc)
                out.absorb(r)
            else:
                out.normal = exits
            return out
        if isinstance(s, (ast.For, ast.AsyncFor)):
            cur = self.do_calls(s.iter, states, out)
            seen = set()
            work = set(cur)
            exits = set(cur)   # zero iterations
            while work:
                new = work - seen
                if not new:
                    break
                seen |= new
                body_in = set()
                for st in new:
                    body_in.add(self.assign(s.target, None, st, self.c.for_value(s, st) if hasattr(self.c, "for_value") else TOP))
                r = self.block(s.body, body_in, cur_exc)
                out.ret |= r.ret
                out.exc |= r.exc
                exits |= r.brk | r.normal | r.cont
                work = r.normal | r.cont
            if s.orelse:
                r = self.block(s.orelse, exits, cur_exc)
                out.absorb(r)
            else:
                out.normal = exits
            return out
        if isinstance(s, (ast.With, ast.AsyncWith)):
            cur = set(states)
            for it in s.items:
                cur = self.do_calls(it.context_expr, cur, out)
            r = self.block(s.body, cur, cur_exc)
            out.absorb(r)
            return out
        if isinstance(s, ast.Try):
            rb = self.block(s.body, states, cur_exc)
            res = Outcome()
            res.brk, res.cont, res.ret = set(rb.brk), set(rb.cont), set(rb.ret)
            # else branch
            if s.orelse:
                re_ = self.block(s.orelse, rb.normal, cur_exc)
                res.absorb(re_)
            else:
                res.normal |= rb.normal
            for (st, exc, node) in rb.exc:
                handled = False
                for h in s.handlers:
                    names = self._handler_names(h)
                    if any(self.m.is_exc_sub(exc, n) for n in names):
                        handled = True
                        hst = st
                        if h.name and (self.c.track is None or h.name in self.c.track):
                            hst = st.set(h.name, TRUTHY)
                        hst = self.c.on_handler(h, hst, exc) if hasattr(self.c, "on_handler") else hst
                        rh = self.block(h.body, {hst}, (exc, h.name, node))
                        res.absorb(rh)
                        break
                if not handled:
                    res.exc.add((st, exc, node))
            if s.finalbody:
                fin = Outcome()
                for kind in ("normal", "brk", "cont"):
                    sts = getattr(res, kind)
                    if sts:
                        rf = self.block(s.finalbody, sts, cur_exc)
                        getattr(fin, kind).update(rf.normal)
                        fin.absorb(rf, normal=False)
                for (st, node) in res.ret:
                    rf = self.block(s.finalbody, {st}, cur_exc)
                    for s2 in rf.normal:
                        fin.ret.add((s2, node))
                    fin.absorb(rf, normal=False)
                for (st, exc, node) in res.exc:
                    rf = self.block(s.finalbody, {st}, cur_exc)
                    for s2 in rf.normal:
                        fin.exc.add((s2, exc, node))
                    fin.absorb(rf, normal=False)
                return fin
            return res
        raise AnalysisError("flow: statement kind %s not handled in %s:%s"
                            % (type(s).__name__, self.f.qualname, getattr(s, "lineno", "?")))

    def _handler_names(self, h):
        if h.type is None:
            return ["BaseException"]
        if isinstance(h.type, ast.Tuple):
            out = []
            for e in h.type.elts:
                d = A.dotted(e)
                out.append(d.split(".")[-1] if d else "?")
            return out
        d = A.dotted(h.type)
        return [d.split(".")[-1] if d else "?"]
