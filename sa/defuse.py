"""E8: intraprocedural def-use helpers (flow-insensitive dependency closure, simple forward taint)."""
import ast

from . import astutil as A


def deps(func):
    """name -> set of names its assigned values mention (union over all assignments)."""
    d = {}

    def add(tnames, value):
        src = A.names_in(value) if value is not None else set()
        for t in tnames:
            d.setdefault(t, set()).update(src)

    for n in A.body_nodes(func):
        if isinstance(n, ast.Assign):
            for t in n.targets:
                add(A.assigned_names(t), n.value)
                # x[i] = v / x.attr = v : x depends on v
                if isinstance(t, (ast.Subscript, ast.Attribute)):
                    base = t
                    while isinstance(base, (ast.Subscript, ast.Attribute)):
                        base = base.value
                    if isinstance(base, ast.Name):
                        add([base.id], n.value)
        elif isinstance(n, ast.AugAssign):
            add(A.assigned_names(n.target), n.value)
        elif isinstance(n, ast.AnnAssign) and n.value is not None:
            add(A.assigned_names(n.target), n.value)
        elif isinstance(n, (ast.For, ast.comprehension)):
            add(A.assigned_names(n.target), n.iter)
        elif isinstance(n, ast.With):
            for it in n.items:
                if it.optional_vars is not None:
                    add(A.assigned_names(it.optional_vars), it.context_expr)
        elif isinstance(n, ast.NamedExpr):
            add(A.assigned_names(n.target), n.value)
        elif isinstance(n, ast.Call) and isinstance(n.func, ast.Attribute) and isinstance(n.func.value, ast.Name) \
                and n.func.attr in ("append", "extend", "insert", "add", "update", "appendleft"):
            for a in n.args:
                add([n.func.value.id], a)
    return d


def closure(func, name, d=None):
    d = d if d is not None else deps(func)
    seen = set()
    todo = [name]
    while todo:
        x = todo.pop()
        if x in seen:
            continue
        seen.add(x)
        todo += list(d.get(x, ()))
    return seen
