"""E5: extraction of rule-instance tables from call sites (block constructs, END statements, expression levels)."""
import ast

from . import astutil as A
from .model import AnalysisError

UTILS = "fparser.two.utils"
ENGINES = ("BlockBase", "EndStmtBase", "BinaryOpBase", "UnaryOpBase", "BracketBase", "WORDClsBase",
           "SequenceBase", "CallBase", "CALLBase", "KeywordValueBase", "SeparatorBase", "StringBase",
           "STRINGBase", "NumberBase", "Type_Declaration_StmtBase")


class Val:
    """Abstract value of an engine argument."""
    __slots__ = ("kind", "v", "node")

    def __init__(self, kind, v=None, node=None):
        self.kind = kind   # 'class' | 'none' | 'const' | 'list' | 'tuple' | 'pattern' | 'unknown'
        self.v = v
        self.node = node

    def __repr__(self):
        if self.kind == "class":
            return self.v.split(":")[1]
        if self.kind in ("list", "tuple"):
            return "[%s]" % ", ".join(map(repr, self.v))
        if self.kind == "pattern":
            return "pattern.%s" % self.v
        if self.kind == "none":
            return "None"
        if self.kind == "const":
            return repr(self.v)
        return "?(%s)" % A.text(self.node)

    def short(self):
        return repr(self)


def concrete_users(model, finfo, attr="match"):
    """All classes whose resolved `attr` is the function finfo."""
    out = []
    for k in model.classes:
        f = model.method(k, attr)
        if f is finfo:
            out.append(k)
    return sorted(out)


def _single_assign(func, name):
    """The single assignment `name = expr` in func, else None."""
    found = []
    for n in A.body_nodes(func):
        if isinstance(n, ast.Assign):
            for t in n.targets:
                if isinstance(t, ast.Name) and t.id == name:
                    found.append(n.value)
        elif isinstance(n, (ast.AugAssign, ast.AnnAssign)) and isinstance(n.target, ast.Name) and n.target.id == name:
            found.append(None)
        elif isinstance(n, (ast.For, ast.comprehension)) and name in A.assigned_names(n.target):
            found.append(None)
    if len(found) == 1 and found[0] is not None:
        return found[0]
    return None


def eval_arg(model, finfo, node, concrete=None, depth=0):
    """Evaluate an engine-call argument to a Val."""
    if node is None:
        return Val("unknown")
    if isinstance(node, ast.Constant):
        if node.value is None:
            return Val("none", node=node)
        return Val("const", node.value, node)
    if isinstance(node, (ast.List, ast.Tuple)):
        return Val("list" if isinstance(node, ast.List) else "tuple",
                   [eval_arg(model, finfo, e, concrete, depth) for e in node.elts], node)
    if isinstance(node, ast.Name):
        ent = model.resolve_name_in_func(finfo, node.id)
        params = A.param_names(finfo.node)
        if node.id not in params:
            if ent and ent.get("kind") == "class":
                # make sure it is not shadowed by a local assignment
                if _single_assign(finfo.node, node.id) is None:
                    return Val("class", ent["key"], node)
            val = _single_assign(finfo.node, node.id)
            if val is not None and depth < 3:
                return eval_arg(model, finfo, val, concrete, depth + 1)
        return Val("unknown", node=node)
    if isinstance(node, ast.Attribute):
        d = A.dotted(node)
        if d and d.startswith("pattern."):
            rest = d[len("pattern."):]
            return Val("pattern", rest, node)
        if d and d.startswith("di.") or d and d.startswith("DynamicImport."):
            ent = model.snap["di"].get(d.split(".", 1)[1])
            if ent and ent["kind"] == "class":
                return Val("class", ent["key"], node)
        return Val("unknown", node=node)
    if isinstance(node, ast.Call):
        d = A.dotted(node.func)
        # pattern.xyz.named()
        if d and d.startswith("pattern.") and d.endswith(".named") and not node.args:
            return Val("pattern", d[len("pattern."):-len(".named")], node)
        # hook: cls.some_hook() / SomeClass.some_hook()
        if d and "." in d and not node.args and not node.keywords and concrete is not None:
            recv, meth = d.rsplit(".", 1)
            target = None
            if recv == "cls":
                target = concrete
            else:
                target = model.class_of_name(finfo, recv)
            if target:
                hf = model.method(target, meth)
                if hf is not None:
                    rets = A.returns(hf.node)
                    if len(rets) == 1 and rets[0].value is not None:
                        return eval_arg(model, hf, rets[0].value, target, depth + 1)
        return Val("unknown", node=node)
    return Val("unknown", node=node)


class Instance:
    def __init__(self, engine, concrete, owner_func, call, args, raw):
        self.engine = engine          # 'BlockBase' ...
        self.concrete = concrete      # class key using this match
        self.func = owner_func        # FuncInfo containing the call
        self.call = call
        self.args = args              # param -> Val
        self.raw = raw                # param -> ast node

    @property
    def name(self):
        return self.concrete.split(":")[1]

    @property
    def tag(self):
        mod = self.concrete.split(":")[0]
        return self.name + ("(08)" if "Fortran2008" in mod else "")

    def flag(self, name, default=False):
        v = self.args.get(name)
        if v is None:
            return default
        if v.kind == "const":
            return v.v
        if v.kind == "none":
            return None
        return v

    def __repr__(self):
        return "<%s %s %s>" % (self.engine, self.tag, {k: v.short() for k, v in self.args.items()})


def engine_params(model, engine):
    key = model.key(engine, UTILS)
    f = model.method(key, "match")
    if f is None:
        raise AnalysisError("anchor vanished: %s.match" % engine)
    return f, A.param_names(f.node), A.param_defaults(f.node)


def engine_instances(model, engine):
    """All (concrete class, call site) instances of <engine>.match(...) in match methods of rule classes."""
    ef, params, defaults = engine_params(model, engine)
    out = []
    seen_funcs = {}
    for k in sorted(model.classes):
        c = model.classes[k]
        if not c["module"].startswith("fparser.two"):
            continue
        f = model.method(k, "match")
        if f is None or f is ef:
            continue
        if id(f) not in seen_funcs:
            sites = [cl for cl in A.calls(f.node) if A.dotted(cl.func) == engine + ".match"]
            seen_funcs[id(f)] = sites
        for cl in seen_funcs[id(f)]:
            b = A.bind(cl, params)
            if b is None:
                out.append(Instance(engine, k, f, cl, {}, {}))
                continue
            args = {}
            for p in params:
                if p in b:
                    args[p] = eval_arg(model, f, b[p], k)
                elif p in defaults:
                    args[p] = eval_arg(model, ef, defaults[p], k)
            out.append(Instance(engine, k, f, cl, args, b))
    return out


def is_rule_class(model, key):
    return model.issub(key, model.key("Base", UTILS))
