"""F56 (known): a surplus ')' after an intrinsic operator in a generic-spec is accepted."""
from fparser.common.readfortran import FortranStringReader
from fparser.two.parser import ParserFactory
from fparser.two.utils import FortranSyntaxError

try:
    t = ParserFactory().create(std="f2003")(FortranStringReader("module m\n public :: operator(*))\nend module m\n"))
    print(t)
    raise SystemExit("unbalanced parentheses accepted")
except FortranSyntaxError:
    print("OK")
