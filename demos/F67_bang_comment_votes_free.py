"""F67 (known): a '!' comment that starts in columns 2-5 makes a fixed-form source free form."""
from fparser.common.readfortran import FortranStringReader

src = "      program Main\n   ! a remark\n      integer Idx\n     &       , j\n      end program Main\n"
rd = FortranStringReader(src)
items = [i.line for i in rd]
print(rd.format, items)
assert rd.format.is_free and "& , j" in " ".join(items[2].split())      # the defect: should be fixed form, 'integer Idx, j'
print("DEFECT REPRODUCED")
