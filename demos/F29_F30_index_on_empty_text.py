"""F29 (fixed by 3df80a8): '10 format(e)';  F30 (fixed by 0d4e72c): 'pointer (p, )' -- both escaped as IndexError."""
from fparser.common.readfortran import FortranStringReader
from fparser.two.parser import ParserFactory
from fparser.two.utils import FortranSyntaxError

for src in ("program p\n10 format(e)\nend program p\n", "program p\npointer (p, )\nend program p\n"):
    try:
        ParserFactory().create(std="f2003")(FortranStringReader(src))
        raise SystemExit("accepted")
    except FortranSyntaxError as err:
        print("rejected:", str(err).splitlines()[0])
print("OK")
