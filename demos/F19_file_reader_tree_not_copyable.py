"""F19 (known finding, C18): trees built from a FortranFileReader cannot be copied or pickled."""
import copy
import os
import pickle
import tempfile

from fparser.common.readfortran import FortranFileReader, FortranStringReader
from fparser.two.parser import ParserFactory

d = tempfile.mkdtemp()
path = os.path.join(d, "a.f90")
with open(path, "w") as fh:
    fh.write("program p\ninclude 'inc.h'\nx = 1\nend program p\n")
with open(os.path.join(d, "inc.h"), "w") as fh:
    fh.write("integer :: x\n")
parser = ParserFactory().create(std="f2003")
failures = 0
for label, reader in (("file reader", FortranFileReader(path)),
                      ("string reader + resolved include", FortranStringReader("program p\ninclude 'inc.h'\nx = 1\nend program p\n", include_dirs=[d]))):
    tree = parser(reader)
    for name, fn in (("deepcopy", copy.deepcopy), ("pickle", lambda t: pickle.loads(pickle.dumps(t)))):
        try:
            fn(tree)
            print(label, name, "ok")
        except TypeError as err:
            failures += 1
            print(label, name, "FAILS:", err)
print("failures:", failures)
raise SystemExit(1 if failures else 0)
