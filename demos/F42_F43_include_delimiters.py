"""F42 / F43 (known findings): include delimiters are not reproduced."""
from fparser.common.readfortran import FortranStringReader
from fparser.two.parser import ParserFactory

SRC = "program p\ninclude \"it's.inc\"\n#include <x.h>\nx = 1\nend program p\n"
text = str(ParserFactory().create(std="f2003")(FortranStringReader(SRC)))
print(text)
bad = [l for l in ("INCLUDE 'it's.inc'", '#include "x.h"') if l in text]
print("re-delimited:", bad)
raise SystemExit(1 if bad else 0)
