from fparser.two.parser import ParserFactory
from fparser.common.readfortran import FortranStringReader
from fparser.two.utils import FortranSyntaxError
p = ParserFactory().create(std="f2003")
# An unterminated labelled DO must be rejected, not silently swallowed.
for src in ["program p\ndo 10 i=1,2\nx=1\n10 return\nz=3\nend program p\n",
            "program p\ndo 10 i=1,2\nx=1\ny=2\nend program p\n"]:
    try:
        t = p(FortranStringReader(src))
    except FortranSyntaxError:
        continue
    out = str(t)
    # If it is accepted, nothing may be lost.
    assert "x = 1" in out and "DO 10" in out, out
print("ok")
