from fparser.two.parser import ParserFactory
from fparser.common.readfortran import FortranStringReader
p = ParserFactory().create(std="f2003")
for decl, want in [
  ("character(kind=kc, len=f(n+1)) :: s", "CHARACTER(LEN = f(n + 1), KIND = kc) :: s"),
  ("character(kind=f(n+1)) :: s", "CHARACTER(KIND = f(n + 1)) :: s"),
  ("character(2*(n+1), kc) :: s", "CHARACTER(LEN = 2 * (n + 1), KIND = kc) :: s"),
  ("character(2*(n+1), kind=g(1)) :: s", "CHARACTER(LEN = 2 * (n + 1), KIND = g(1)) :: s"),
  ("character(len=2*(n+1), kind=g(1)) :: s", "CHARACTER(LEN = 2 * (n + 1), KIND = g(1)) :: s"),
]:
    t = p(FortranStringReader("subroutine a\n%s\nend subroutine a\n" % decl))
    out = str(t).split("\n")[1].strip()
    assert "F2PY" not in out, out
    assert out == want, (out, want)
print("ok")
