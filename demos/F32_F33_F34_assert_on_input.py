"""F32 (c390fae), F33 (2ddc208), F34 (8de9328): AssertionError escaped from three matchers."""
from fparser.common.readfortran import FortranStringReader
from fparser.two.parser import ParserFactory
from fparser.two.utils import FortranSyntaxError

for src in ("module m\ntype t\nreal :: xyz(3))\nend type t\nend module m\n",
            "program p\nx = (/ (i=1,3) /)\nend program p\n",
            "program p\ndeallocate(stat=i)\nend program p\n"):
    try:
        ParserFactory().create(std="f2003")(FortranStringReader(src))
        raise SystemExit("accepted")
    except FortranSyntaxError as err:
        print("rejected:", str(err).splitlines()[0])
print("OK")
