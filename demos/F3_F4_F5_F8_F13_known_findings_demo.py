from fparser.two.parser import ParserFactory
from fparser.common.readfortran import FortranStringReader
from fparser.two.utils import FortranSyntaxError
p = ParserFactory().create(std="f2003")
for src in ["program a\nfoo:\nend program a\n", "subroutine a\nend subroutine b\n", "program a\n; x=1\nend program a\n", "subroutine s\ninteger.:: i\nend subroutine s\n"]:
    try:
        t = p(FortranStringReader(src)); print("accepted:", repr(str(t)))
    except FortranSyntaxError as e: print("FSE", str(e).replace("\n"," | "))
    except BaseException as e: print("OTHER", type(e).__name__, str(e)[:100])
from fparser.two import Fortran2003 as F
for e in ["a .foo. b .and. c", "a .foo. .not. b", "x .foo. .true.", "a .foo. b .bar. c", "a .and. b .foo. c"]:
    try: print(e, "->", repr(F.Expr(e)))
    except Exception as ex: print(e, "EXC", type(ex).__name__)
