from fparser.two.parser import ParserFactory
from fparser.common.readfortran import FortranStringReader
from fparser.common.sourceinfo import FortranFormat
p = ParserFactory().create(std="f2003")
src = "      program p\n      x = 1\n 1 0  continue\n      y = 2\n      end\n"
r = FortranStringReader(src)
assert r.format.is_fixed
out = str(p(r))
print(out)
assert "CONTINUE" in out and "10" in out, out
