"""F74 (known): a preprocessor line (or, with comments kept, a comment) between the two DO statements of a nest that shares its
terminal statement makes the program unacceptable."""
from fparser.common.readfortran import FortranStringReader
from fparser.two.parser import ParserFactory
from fparser.two.utils import FortranSyntaxError

base = "subroutine Nest(a, n)\n  real :: a(n, n)\n  do 20 i = 1, n\n  do 20 j = 1, n\n    a(i, j) = 0.0\n20 continue\nend subroutine Nest\n"
ParserFactory().create(std="f2003")(FortranStringReader(base))
lines = base.split("\n")
for extra, opts in (("#ifdef INNER", {}), ("! inner loop", {"ignore_comments": False})):
    src = "\n".join(lines[:3] + [extra] + lines[3:])
    try:
        ParserFactory().create(std="f2003")(FortranStringReader(src, **opts))
        print(repr(extra), "accepted")
    except FortranSyntaxError as err:
        print(repr(extra), "-> FortranSyntaxError", str(err).replace("\n", " / "))
        print("DEFECT REPRODUCED")
