"""F38 (fixed by f8f4f24): a Hollerith constant whose length contains a blank, inside a format list."""
from fparser.common.readfortran import FortranStringReader
from fparser.two.parser import ParserFactory

text = str(ParserFactory().create(std="f2003")(FortranStringReader("program p\n10 format(3Habc, 1 0Habcdefghij, i2)\nend program p\n")))
print(text)
assert "10Habcdefghij" in text
print("OK")
