"""F70 (known): END INTERFACE with another generic name than the INTERFACE statement is accepted."""
from fparser.common.readfortran import FortranStringReader
from fparser.two.parser import ParserFactory

src = "module m\n interface Swap\n  module procedure Swap_I\n end interface other_Swap\ncontains\n subroutine Swap_I(a)\n  integer :: a\n end subroutine Swap_I\nend module m\n"
t = str(ParserFactory().create(std="f2003")(FortranStringReader(src)))
print(t)
assert "END INTERFACE other_Swap" in t
print("DEFECT REPRODUCED")
