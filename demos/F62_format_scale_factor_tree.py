"""F62 (known): '2pf8.2' is printed as '2P, F8.2', which re-parses to a different tree."""
from fparser.common.readfortran import FortranStringReader
from fparser.two.parser import ParserFactory

p = ParserFactory().create(std="f2003")
t1 = p(FortranStringReader("subroutine s\n10 format (2pf8.2)\nend subroutine s\n"))
t2 = p(FortranStringReader(str(t1)))
print(repr(t1)); print(repr(t2))
assert str(t1) == str(t2)
assert repr(t1) == repr(t2), "same text, different tree"
print("OK")
