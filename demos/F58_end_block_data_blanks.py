"""F58 (fixed): 'end block   data bd' -- several blanks between the words of the END type -- was rejected."""
from fparser.common.readfortran import FortranStringReader
from fparser.two.parser import ParserFactory

p = ParserFactory().create(std="f2003")
for src in ("block data bd\n integer i\nend block   data bd\n", "block data bd\n integer i\nend block &\n   data bd\n"):
    t = str(p(FortranStringReader(src)))
    assert t.splitlines()[-1] == "END BLOCK DATA bd", t
print("OK")
