"""F58 (fixed): 'end block   data bd' -- several blanks between the words of the END type -- was rejected."""
from fparser.common.readfortran import FortranStringReader
from fparser.two.parser import ParserFactory

p = ParserFactory().create(std="f2003")
for src in ("block data bd\n integer i\nend block   data bd\n", "block data bd\n integer i\nend block &\n   data bd\n"):
    t = str(p(FortranStringReader(src)))
    assert t.splitlines()[-1] == "END BLOCK DATA bd", t
print("OK")

# F59 (fixed): the same for the two-word keyword ERROR STOP under f2008
p8 = ParserFactory().create(std="f2008")
t = str(p8(FortranStringReader("program p\n error   stop 'x'\nend program p\n")))
assert "ERROR STOP 'x'" in t, t
print("OK (F59)")
