"""F47 (fixed by bd7a1e6): a '#' directive in fixed-form source made the detector choose free form."""
from fparser.common.readfortran import FortranStringReader
from fparser.common.sourceinfo import get_source_info_str
from fparser.two.parser import ParserFactory

src = "      subroutine s(a)\n      real a\n#ifdef X\n      real b\n#endif\nc comment\n      a = 1.0 +\n     &    2.0\n      end subroutine s\n"
fmt = get_source_info_str(src)
print(fmt)
assert fmt.is_fixed, "fixed-form source with a cpp line detected as %s" % fmt
print(ParserFactory().create(std="f2003")(FortranStringReader(src)))
print("OK")
