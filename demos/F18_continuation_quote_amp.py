"""F18 (fixed by 14a8823): a free-form continuation line whose second character is '&' inside a literal.
Before the fix the reader delivered "x = 'a' // ' // y" and the parser raised FortranSyntaxError on a valid program."""
from fparser.common.readfortran import FortranStringReader
from fparser.two.parser import ParserFactory

SRC = "program p\ncharacter(10) :: x, y\nx = 'a' // &\n'&' // y\nend program p\n"
lines = [it.line for it in FortranStringReader(SRC)]
print(lines)
assert "x = 'a' // '&' // y" in lines, lines
tree = ParserFactory().create(std="f2003")(FortranStringReader(SRC))
assert "'&'" in str(tree)
print("OK")
