from fparser.two.parser import ParserFactory
from fparser.common.readfortran import FortranStringReader
from fparser.two.utils import FortranSyntaxError
p = ParserFactory().create(std="f2008")
for src in ["program p\na: do 10 i=1,2\nx=1\n10 end do b\nend program p\n",
            "program p\ndo 10 i=1,2\nx=1\n10 end do b\nend program p\n"]:
    try:
        p(FortranStringReader(src))
    except FortranSyntaxError:
        continue
    raise SystemExit("accepted an END DO with a wrong construct name:\n" + src)
print(str(p(FortranStringReader("program p\na: do 10 i=1,2\nx=1\n10 end do a\nend program p\n"))))
print("ok")
