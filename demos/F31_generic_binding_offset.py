"""F31 (fixed by f536a1f): 'generic :: g =>ab' was parsed as 'GENERIC :: g => b'."""
from fparser.common.readfortran import FortranStringReader
from fparser.two.parser import ParserFactory

SRC = "module m\ntype t\ncontains\ngeneric :: g =>ab, c\nend type t\nend module m\n"
text = str(ParserFactory().create(std="f2003")(FortranStringReader(SRC)))
print(text)
assert "GENERIC :: g => ab, c" in text
print("OK")
