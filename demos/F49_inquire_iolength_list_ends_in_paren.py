"""F49 (fixed by the commit named in known_findings.json): INQUIRE(IOLENGTH=..) whose output list ends in ')'."""
from fparser.common.readfortran import FortranStringReader
from fparser.two.parser import ParserFactory

src = "subroutine s(a, b, n)\n  inquire (iolength=n) a, b(1:2)\nend subroutine s\n"
text = str(ParserFactory().create(std="f2003")(FortranStringReader(src)))
print(text)
assert "INQUIRE(IOLENGTH=n) a, b(1 : 2)" in text
print("OK")
