"""F51 (fixed): a literal or name spelled like a placeholder of string_replace_map was rewritten when the map was undone."""
from fparser.common.readfortran import FortranStringReader
from fparser.two.parser import ParserFactory

t = str(ParserFactory().create(std="f2003")(FortranStringReader("subroutine s\n v = 'F2PY_EXPR_TUPLE_1' // f(p+q)\nend subroutine s\n")))
print(t)
assert "'F2PY_EXPR_TUPLE_1' // f(p + q)" in t
print("OK")
