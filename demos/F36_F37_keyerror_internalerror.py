"""F36 (873723b): 'x = (F2PY_EXPR_TUPLE_9 + 1)' escaped as KeyError.  F37 (5b54b58): 'use m, only: read(formatted)' escaped as InternalError."""
from fparser.common.readfortran import FortranStringReader
from fparser.two.parser import ParserFactory

for src, want in (("program p\nx = (F2PY_EXPR_TUPLE_9 + 1)\nend program p\n", "x = (F2PY_EXPR_TUPLE_9 + 1)"),
                  ("program p\nuse m, only: read(formatted)\nend program p\n", "USE m, ONLY: READ(FORMATTED)")):
    text = str(ParserFactory().create(std="f2003")(FortranStringReader(src)))
    assert want in text, text
    print(text.replace("\n", " | "))
print("OK")
