"""F72 (fixed in bcd7cb7): a BLOCK construct in the body of a non-block DO loop is read twice (the loop is first tried as a block DO,
then as an action-term DO; the second time its statements come from the per-line parse cache, so their match() does not run again).
Before the fix the second reading created a second nested table of the same name, which stayed empty, and left the first behind."""
from fparser.common.readfortran import FortranStringReader
from fparser.two.parser import ParserFactory
from fparser.two.symbol_table import SYMBOL_TABLES

src = """subroutine s(a, n)
  integer :: n, i
  real :: a(n)
  do 10 i = 1, n
    block
      real :: t
      t = a(i)
      a(i) = 2*t
    end block
10 a(i) = a(i) + 1
end subroutine s
"""
ParserFactory().create(std="f2008")(FortranStringReader(src))
table = SYMBOL_TABLES.lookup("s")
kids = [(c.name.split(":")[0], sorted(c._data_symbols)) for c in table.children]
print(kids)
if kids == [("block", ["t"])]:
    print("FIXED: one nested table, holding t")
else:
    print("DEFECT REPRODUCED")
