"""F21 (fixed by 6bbb9bc): END BLOCK DATA <name> after an unnamed BLOCK DATA escaped as AttributeError.
After the fix it takes the ordinary name-mismatch path (which is the separate known finding F3: reader.error -> SystemExit)."""
from fparser.common.readfortran import FortranStringReader
from fparser.two.parser import ParserFactory

try:
    ParserFactory().create(std="f2003")(FortranStringReader("block data\ninteger :: x\nend block data foo\n"))
    print("accepted")
except AttributeError as err:
    print("AttributeError escaped:", err)
    raise SystemExit(1)
except SystemExit:
    print("name mismatch reported through reader.error (F3)")
except Exception as err:  # pylint: disable=broad-except
    print(type(err).__name__, err)
print("OK")
