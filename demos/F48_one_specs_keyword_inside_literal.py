"""F48 (known, the suite pins it in test_parsefortran.py::test_free90): fparser1's specs_split_comma takes the first '=' of a
restored spec for the keyword separator even when it sits inside a character literal or a parenthesised expression."""
from fparser import api

src = "subroutine s(i)\n  write(6, '(1x,\"a=\",i3)') i\n  allocate(a(merge(1,2,n==1)), stat=ierr)\nend subroutine\n"
out = str(api.parse(src, isfree=True, isstrict=False, analyze=False))
print(out)
assert "'(1x,\"a=\",i3)'" in out, "format literal was changed"
assert "a(merge(1,2,n==1))" in out, "allocate object was changed"
print("OK")
