"""F26 (fixed by 0f29e0e): 'x = (/ 1, /)' escaped as IndexError.  F27 (fixed by 1d7463c): 'procedure(iface)) :: a' was accepted."""
from fparser.common.readfortran import FortranStringReader
from fparser.two.parser import ParserFactory
from fparser.two.utils import FortranSyntaxError

for src in ("program p\nx = (/ 1, /)\nend program p\n", "subroutine s(a)\nprocedure(iface)) :: a\nend subroutine s\n"):
    try:
        tree = ParserFactory().create(std="f2003")(FortranStringReader(src))
        raise SystemExit("accepted: %s" % str(tree).replace("\n", " | "))
    except FortranSyntaxError as err:
        print("rejected:", str(err).splitlines()[0])
print("OK")
