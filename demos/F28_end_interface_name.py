"""F28 (known finding, C08): END INTERFACE may carry any generic-spec."""
from fparser.common.readfortran import FortranStringReader
from fparser.two.parser import ParserFactory

SRC = "module m\ninterface foo\nmodule procedure f\nend interface bar\nend module m\n"
tree = ParserFactory().create(std="f2003")(FortranStringReader(SRC))
print(tree)
print("accepted although the names differ (F2003 C1202)")
raise SystemExit(1)
