"""F63 (known): shared-label DO loops duplicate their terminal statement.  F64 (fixed): 'real f, x' inside function f lost x."""
from fparser import api

out = str(api.parse("function f(x)\n real f, x\n f = x\nend function f\n", isfree=True, isstrict=False, analyze=False))
assert "REAL x" in out, "F64: declaration of x dropped\n" + out
print("OK (F64)")
src = "subroutine t(a, n)\n do 10 i = 1, n\n do 10 j = 1, n\n a(i, j) = 0\n10 continue\nend subroutine t\n"
out = str(api.parse(src, isfree=True, isstrict=False, analyze=False))
print(out)
assert out.count("CONTINUE") == 1, "F63: terminal statement duplicated"
print("OK")
