from fparser.two.parser import ParserFactory
from fparser.common.readfortran import FortranStringReader
p = ParserFactory().create(std="f2003")
for code in ["integer, intent(inx) :: a", "integer, intent(in)) :: a", "integer, intent(out foo) :: a", "real, intent(inout) :: a","integer, intent(xin) :: a"]:
    try:
        t = p(FortranStringReader("subroutine s(a)\n%s\nend subroutine s\n" % code)); print(code, "-> ACCEPTED as:", str(t).split("\n")[1].strip())
    except Exception as e: print(code, "->", type(e).__name__)
