"""F24 (fixed by 02396a0) and F25 (fixed by 3e3f990): labels in fparser1's regenerated source."""
import fparser.api as api


def body(text):
    return [l.strip() for l in text.splitlines() if l.strip() and not l.lstrip().startswith("!")]


def twice(src, isfree):
    one = str(api.parse(src, isfree=isfree, isstrict=False, ignore_comments=True, analyze=False))
    two = str(api.parse(one, isfree=isfree, isstrict=False, ignore_comments=True, analyze=False))
    return one, two


one, two = twice("subroutine s(a, x)\ninteger x\nreal a(3)\n10 if (x.gt.0) x = 1\n20 where (a > 0) a = 1\n30 forall (i=1:3) a(i) = 0\nend subroutine s\n", True)
print(one)
assert body(one) == body(two), "F24: not stable"
assert "10  IF (x.gt.0) x = 1" in one
one, two = twice("      subroutine s(x)\n      integer x\n12345 x = 1\n      end\n", False)
print(one)
assert body(one) == body(two), "F25: not stable"
assert "\n12345 " in one
print("OK")
