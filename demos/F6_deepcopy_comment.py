import copy, pickle
from fparser.two.parser import ParserFactory
from fparser.common.readfortran import FortranStringReader
from fparser.two.utils import walk
src = "! a comment\nprogram p\n!$omp parallel\n x = 1 ! trailing\nend program p\n"
for pd in (False, True):
    p = ParserFactory().create(std="f2008")
    t = p(FortranStringReader(src, ignore_comments=False, process_directives=pd))
    c = copy.deepcopy(t)
    assert str(c) == str(t), (str(c), str(t))
    u = pickle.loads(pickle.dumps(t))
    assert str(u) == str(t)
    from fparser.two.utils import Base
    ids = {id(n) for n in walk(t) if isinstance(n, Base)}
    assert not ids & {id(n) for n in walk(c) if isinstance(n, Base)}
    print("ok", pd, [type(n).__name__ for n in walk(c) if type(n).__name__ in ("Comment","Directive")])
