"""F57 (known): a surplus END SUBROUTINE inside an IF body is accepted as an action statement."""
from fparser.common.readfortran import FortranStringReader
from fparser.two.parser import ParserFactory
from fparser.two.utils import FortranSyntaxError

src = "subroutine s(a)\n if (a>0) then\n  end subroutine s\n end if\nend subroutine s\n"
try:
    print(ParserFactory().create(std="f2003")(FortranStringReader(src)))
    raise SystemExit("ill-nested program accepted")
except FortranSyntaxError:
    print("OK")
