from fparser.two.parser import ParserFactory
from fparser.common.readfortran import FortranStringReader
from fparser.two.utils import FortranSyntaxError
from fparser.two.symbol_table import SYMBOL_TABLES
p = ParserFactory().create(std="f2008")
bad = [
 "subroutine s\nx = sin(a, b)\nend subroutine s\n",              # F1: InternalSyntaxError crosses BlockBase.match
 "x = 1\nfoo: if (a) then\nend if bar\nend\n",                    # F2: FortranSyntaxError crosses Main_Program0.match
 "module m\ncontains\nsubroutine s\nblock\nx = sin(a, b)\nend block\nend subroutine s\nend module m\n",
]
for src in bad:
    try:
        p(FortranStringReader(src))
        raise SystemExit("expected failure: " + src)
    except FortranSyntaxError:
        pass
    assert SYMBOL_TABLES.current_scope is None, (src, SYMBOL_TABLES.current_scope.name)
    assert not SYMBOL_TABLES._symbol_tables, (src, list(SYMBOL_TABLES._symbol_tables))
    t = p(FortranStringReader("subroutine t\nend subroutine t\n"))
    assert list(SYMBOL_TABLES._symbol_tables) == ["t"], list(SYMBOL_TABLES._symbol_tables)
    SYMBOL_TABLES.clear()
print("ok")
