# C09: "A parse that fails leaves nothing behind ... no symbol-table entry of the failed parse remains".
# KNOWN FINDING F16: the tables of units that matched before the failing unit stay registered.
from fparser.two.parser import ParserFactory
from fparser.common.readfortran import FortranStringReader
from fparser.two.utils import FortranSyntaxError
from fparser.two.symbol_table import SYMBOL_TABLES
p = ParserFactory().create(std="f2003")
src = "subroutine a\ninteger :: sin\nend subroutine a\nsubroutine b\nx = cos(a, b)\nend subroutine b\n"
try:
    p(FortranStringReader(src)); raise SystemExit("expected a syntax error")
except FortranSyntaxError:
    pass
assert SYMBOL_TABLES.current_scope is None
left = list(SYMBOL_TABLES._symbol_tables)
assert left == [], "tables left behind by the failed parse: %s" % left
print("ok")
