"""F40 (known finding, C08): a surplus END DO inside a labelled DO is absorbed."""
from fparser.common.readfortran import FortranStringReader
from fparser.two.parser import ParserFactory

SRC = "program p\ndo 10 i=1,2\nx = 1\nend do\n10 continue\nend program p\n"
print(ParserFactory().create(std="f2003")(FortranStringReader(SRC)))
print("accepted although the END DO closes nothing")
raise SystemExit(1)
