"""F65, F66, F68, F69 (fixed): defects of the reader found by interpreting it on generated layouts."""
from fparser.common.readfortran import FortranStringReader
from fparser.common.sourceinfo import get_source_info_str

# F65: statements joined by ';' keep their spelling
items = [i.line for i in FortranStringReader("Xa = 1; Yb = F(Zc)\n")]
print(items)
assert items == ["Xa = 1", "Yb = F(Zc)"]

# F66: '0' in column 6 starts a statement
items = [(i.line, i.span) for i in FortranStringReader("      x = 1\n     0y = 2\n     1   + 3\n")]
print(items)
assert [i[0] for i in items] == ["x = 1", "y = 2   + 3"]

# F68: the continuation line of a directive does not vote on the source form
fmt = get_source_info_str("      x = 1\n#define A \\\n  foo\n      y = 2\n")
print(fmt)
assert fmt.is_fixed

# F69: labelled free-form statements are a sign of free form
items = [(i.label, i.line) for i in FortranStringReader("30 return\n10 call foo\n")]
print(items)                      # before the fix: [(None, 'urn'), (10, 'call foo')]
assert items == [(30, "return"), (10, "call foo")]
print("OK")
