"""F41 (known finding, C02): the 2003 Procedure_Stmt invents the MODULE keyword."""
from fparser.common.readfortran import FortranStringReader
from fparser.two.parser import ParserFactory

SRC = "module m\ninterface g\nprocedure a\nend interface\nend module m\n"
for std in ("f2003", "f2008"):
    print(std, "->", str(ParserFactory().create(std=std)(FortranStringReader(SRC))).replace("\n", " | "))
raise SystemExit(1)
