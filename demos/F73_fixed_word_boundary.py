"""F73 (known): fixed form, a short line that ends with a word and a continuation line that starts with one in column 7."""
from fparser.common.readfortran import FortranStringReader

src = "      program Main\n      integer\n     &Idx\n      end program Main\n"
rd = FortranStringReader(src)
lines = [i.line for i in rd]
print(rd.format, lines)
assert lines[1] == "integerIdx"
print("DEFECT REPRODUCED")
