"""F23 (fixed by ec2a183): fparser1 regenerated replace-map placeholders for FORALL / ASSOCIATE constructs and type parameters."""
import fparser.api as api

SRC = """subroutine s(a)
real a(3)
type :: t(k, l)
integer, kind :: k
integer, len :: l
end type t
forall (i=1:3)
 a(i) = 1
end forall
associate (b => a(1))
 b = 1
end associate
end subroutine s
"""
out = str(api.parse(SRC, isfree=True, isstrict=False, ignore_comments=True, analyze=False))
print(out)
assert "F2PY" not in out.upper(), "placeholder leaked"
assert "FORALL (i=1:3)" in out and "ASSOCIATE (b => a(1))" in out and "TYPE t (k, l)" in out
print("OK")
