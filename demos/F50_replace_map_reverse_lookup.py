"""F50 (fixed): string_replace_map looked up its reverse map with the delimiters included although it stores the inner text."""
from fparser.common.readfortran import FortranStringReader
from fparser.two.parser import ParserFactory

p = ParserFactory().create(std="f2003")
t1 = str(p(FortranStringReader("subroutine s\n c = a((x+1)) + b(x+1)\nend subroutine s\n")))
print(t1)
assert "b(x + 1)" in t1 and "b((" not in t1, "parentheses invented"
t2 = str(p(FortranStringReader("subroutine s\n s = \"'ab c'\" // 'ab c'\nend subroutine s\n")))
print(t2)
assert "\"'ab c'\" // 'ab c'" in t2
print("OK")
