"""F20 (fixed by 8d02aff): a trailing directive-form comment after code containing a quote became a Directive."""
from fparser.common.readfortran import FortranStringReader
from fparser.two.parser import ParserFactory
from fparser.two.utils import walk
from fparser.two import Fortran2003 as F

SRC = "program p\ncharacter(3) :: x\nx = 1 !$acc one\nx = 'a' !$acc two\n  !$acc three\nend program p\n"
tree = ParserFactory().create(std="f2003")(FortranStringReader(SRC, process_directives=True))
kinds = [(type(n).__name__, str(n)) for n in walk(tree, (F.Comment, F.Directive))]
print(kinds)
assert kinds == [("Comment", "!$acc one"), ("Comment", "!$acc two"), ("Directive", "!$acc three")], kinds
print("OK")
