"""F60 / F61 (fixed): INTENT(IN OUT) and END FILE, written with the optional blank, were rejected."""
from fparser.common.readfortran import FortranStringReader
from fparser.two.parser import ParserFactory

p = ParserFactory().create(std="f2003")
t = str(p(FortranStringReader("subroutine s(a)\n integer, intent(in out) :: a\n end file 10\nend subroutine s\n")))
print(t)
assert "INTENT(IN OUT)" in t and "ENDFILE 10" in t
print("OK")
