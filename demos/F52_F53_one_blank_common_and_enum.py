"""F52 / F53 (fixed): fparser1 printed a blank common after a named one without its slashes, and ENUM, BIND(C) as 'ENUM __ENUM__'."""
from fparser import api

src = "module m\n  enum, bind(c)\n    enumerator :: red = 1\n  end enum\ncontains\nsubroutine s\n  common /c/ a, b(2, 3) // d\nend subroutine\nend module\n"
out = str(api.parse(src, isfree=True, isstrict=False, analyze=False))
print(out)
assert "COMMON / c / a, b(2, 3) // d" in out, "F52"
assert "ENUM, BIND(C)" in out and "__ENUM__" not in out, "F53"
body = "\n".join(out.splitlines()[1:])
again = str(api.parse(body, isfree=True, isstrict=False, analyze=False))
assert again.splitlines()[1:] == out.splitlines()[1:]
print("OK")
