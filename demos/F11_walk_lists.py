from fparser.two.parser import ParserFactory
from fparser.common.readfortran import FortranStringReader
from fparser.two.utils import walk, Base
from fparser.two import Fortran2003 as F
src = "subroutine s\ncommon /blk/ a, b\ndimension c(10), d(n+1)\nx = (/ (i, i=1,3) /)\nend subroutine s\n"
p = ParserFactory().create(std="f2003")
t = p(FortranStringReader(src))
def allnodes(n, acc):
    if isinstance(n, Base):
        acc.append(n)
        for c in n.children: allnodes(c, acc)
    elif isinstance(n,(list,tuple)):
        for c in n: allnodes(c, acc)
    return acc
a = allnodes(t, [])
w = [n for n in walk(t) if isinstance(n, Base)]
print(len(a), len(w))
assert [id(x) for x in a] == [id(x) for x in w]
names = [str(n) for n in walk(t, F.Name)]
assert "blk" in names and "a" in names and "d" in names, names
print("ok")
