"""F22 (fixed by 279eec5): a ';' inside a preprocessor directive."""
from fparser.common.readfortran import FortranStringReader
from fparser.two.parser import ParserFactory

tree = ParserFactory().create(std="f2003")(FortranStringReader("program p\n#define A x; y\nx = 1; y = 2\nend program p\n"))
text = str(tree)
print(text)
assert "#define A x; y" in text and "x = 1\n" in text and "y = 2" in text
print("OK")
