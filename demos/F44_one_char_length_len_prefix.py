"""F44 (fixed by 02abb76): fparser1, CHARACTER*(name) where the name begins with 'len'."""
from fparser import api

src = "subroutine s(length)\n  character*(length) a\n  character*(lenx+1) :: b\nend subroutine\n"
out = str(api.parse(src, isfree=True, isstrict=False, analyze=False))
print(out)
assert "CHARACTER(LEN=length) a" in out and "CHARACTER(LEN=lenx+1) b" in out
print("OK")
