from fparser.two.parser import ParserFactory
from fparser.common.readfortran import FortranStringReader
p = ParserFactory().create(std="f2008")
src = "module m\ntype t\n10 sequence\n20 integer :: i\nend type t\ntype u\n30 private\n40 integer :: j\nend type u\nend module m\n"
out = str(p(FortranStringReader(src)))
print(out)
assert "10 SEQUENCE" in out and "30 PRIVATE" in out, out
src = "5 submodule (a) b\nend submodule b\n"
out = str(p(FortranStringReader(src)))
print(out)
assert out.startswith("5 SUBMODULE"), out
