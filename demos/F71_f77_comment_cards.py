"""F71 (known): in strict fixed form the comment card behind a statement is swallowed and the span grows over it."""
from fparser.common.readfortran import FortranStringReader
from fparser.common.sourceinfo import FortranFormat

rd = FortranStringReader("      x = 1\nC a comment card\n      y = 2\n", ignore_comments=False)
rd.set_format(FortranFormat(False, True))
items = [(type(i).__name__, i.line, i.span) for i in rd]
print(items)
assert items == [("Line", "x = 1", (1, 2)), ("Line", "y = 2", (3, 3))]       # the defect: no Comment item, span (1, 2)
print("DEFECT REPRODUCED")
