"""F45 (fixed by 14da604) / F46 (fixed by 4d2b528): the initialisation after `*(expr)` was dropped by Component_Decl / Entity_Decl."""
from fparser.common.readfortran import FortranStringReader
from fparser.two.parser import ParserFactory

p = ParserFactory().create(std="f2003")
t1 = str(p(FortranStringReader("module m\n type t\n  character :: c*(2+1) = 'abc'\n end type t\nend module m\n")))
t2 = str(p(FortranStringReader("subroutine s(n)\n character :: c*(n+1) = 'x y'\nend subroutine s\n")))
print(t1)
print(t2)
assert "c*(2 + 1) = 'abc'" in t1, "F45: component initialisation dropped"
assert "c*(n + 1) = 'x y'" in t2, "F46: entity initialisation dropped"
print("OK")
