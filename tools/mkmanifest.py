#!/venv/bin/python
"""Regenerate /verif/MANIFEST.json from the table below (claimed = a rules/Cxx.py module exists and is listed here)."""
import json
import os

VERIF = os.path.dirname(os.path.dirname(os.path.abspath(__file__)))

NOTE = ("Static analysis only. Trusted base: CPython ast.parse of /repo/src/fparser; import of the package and "
        "ParserFactory.create in a /venv/bin/python subprocess (inspect snapshot: classes, MROs, registries, Pattern constants) -- "
        "no reader is built and nothing is parsed; the oracle tables under /verif/oracle; the rule/exception tables in /verif/rules. "
        "Decides only the structural clauses named in 'text' (necessary conditions of the property), not the behavioural equality itself. "
        "Implicit exceptions (IndexError, AttributeError on unknown receivers...) and run-time values are not modelled.")

CLAIMS = {
    "C08": ("table extraction vs. standard oracle + per-call-site abstract interpretation of the block engine",
            "Decides: the block-construct table extracted from all 38 BlockBase.match instances and the 18 END statement classes agree with "
            "the Fortran 2003/2008 rules (opening/END pair, name/label comparison flags, bare END refused); the generic engine, specialised "
            "per call site, returns a match only with found_end and raises on exactly the disagreeing (opening, END/intermediate) name pairs "
            "(finite name domain). Not decided: absorption of stray statements for every nest; unbalanced parentheses.", "DESIGN.md §4 C08"),
    "C09": ("typestate (acquire/release on all normal and exceptional exits) over a path-sensitive abstract interpreter; ownership lints",
            "Decides: every symbol-table scope entered by a reader-level matcher is left on every normal and exceptional exit and a failed "
            "match removes its table (38 specialisations of the block engine + Main_Program0.match, exception edges from explicit-raise "
            "summaries over the resolved call graph); the parser factory resets tables and registry on every returning path; only the "
            "factory writes the registry; no parser code writes class/module-level state outside three confirmed owners; the tokeniser "
            "memo is keyed by all arguments and never mutated by callers; symbol-table keys are lower-cased consistently. Not decided: "
            "equality of results across histories.", "DESIGN.md §4 C09"),
    "C06": ("who-may-call over the resolved call graph; exception-class conversion table; guard classification of explicit raises; per-call-site protocol check",
            "Decides: no call path from the parse/print/read entry points reaches a process-terminating call (3 known sites echoed); every fparser "
            "exception class raised as a signal is converted at Program.__new__; each of the 77 explicit raises of a non-convertible class is "
            "discharged by a guard classification and a matcher raise guarded by the content of the parsed text is a violation (1 known); "
            "source files are opened with the registered decode-error handler; per block-engine call site, every get_*() protocol method exists "
            "on every class its receiver can be; symbol-table clean-up keys are case-normalised. Not decided: termination, the time bound, "
            "implicit exceptions (IndexError etc.).", "DESIGN.md §4 C06"),
    "C10": ("ownership lint, typestate on the node constructor, sibling-contradiction rule between _set_parent and walk",
            "Decides: only _set_parent/Base.__init__ assign .parent; Base.__new__ parents the children of every node it builds before init/return "
            "(typestate over its paths); every init stores what it is given into items/content; _set_parent and walk both fully descend into "
            "lists and tuples and walk is a recursive pre-order traversal in list order; get_root follows .parent; no matcher reuses a node "
            "object (350 matchers). Not decided: stale parents after backtracking through the per-line cache.", "DESIGN.md §4 C10"),
    "C18": ("interface agreement between __getnewargs__ and __new__ over the class hierarchy; abstract interpretation of __new__ under the copy flag",
            "Decides: for each of 661 node classes the tuple returned by the resolved __getnewargs__ binds to the resolved __new__, the _deepcopy "
            "flag is True and under it __new__ returns a fresh object without running a matcher (each distinct __new__ interpreted abstractly, "
            "flag forwarding checked); every attribute __getnewargs__ reads is assigned at every object.__new__ construction site; no class "
            "overrides the copy protocol otherwise. Not decided: equality of the copy's text/structure.", "DESIGN.md §4 C18"),
}

NA = {
    "C20": "bounds a run-time count (rule-constructor calls as a function of input size); no sound static complexity argument for a "
           "backtracking string-splitting parser is in reach, and the only structural handle would be a frozen source fragment",
}


def main():
    props = [json.loads(l) for l in open(os.path.join(VERIF, "properties.jsonl"))]
    checks = []
    na = []
    for p in props:
        pid = p["id"]
        if pid in CLAIMS and os.path.exists(os.path.join(VERIF, "rules", pid + ".py")):
            tech, text, ref = CLAIMS[pid]
            checks.append({
                "property_id": pid,
                "quick_cmd": "./check %s --tier quick" % pid,
                "thorough_cmd": "./check %s --tier thorough" % pid,
                "evidence_file": "/verif/evidence/%s.json" % pid,
                "replay_cmd_template": "./check %s --explain {path}" % pid,
                "engine": "sa",
                "level_claimed": {"category": "other", "text": text, "design_ref": ref},
                "level_note": NOTE,
                "technique": "static analysis: " + tech,
            })
        else:
            na.append({"property_id": pid, "reason": NA.get(pid, "check not built yet (build in progress); see DESIGN.md")})
    man = {
        "version": 1,
        "setup_cmd": "true",
        "hooks": {"guard": "FPARSER_VERIF",
                  "enable": "no hooks are needed: the checks read /repo's source (ast) and import it (inspect); nothing in /repo is instrumented",
                  "baseline_off_cmd": "cd /repo && /venv/bin/python -m pytest -ra -q -p no:cacheprovider --timeout=900 --continue-on-collection-errors",
                  "source_commits": [], "add_only": True},
        "engines": [{"name": "sa", "path": "/verif/sa", "serves_properties": [c["property_id"] for c in checks],
                     "kind_free_text": "repository-specific static analysis: AST index + import-time introspection, resolved call graph, "
                                       "explicit may-raise summaries, path-sensitive abstract interpreter with typestate, regex-language "
                                       "checks on literal patterns, table extraction against oracles"}],
        "checks": checks,
        "notes": "Static-analysis family only; see DESIGN.md. Exit 0 ok / 1 VIOLATION / 2 ANALYSIS-ERROR.",
        "not_applicable": na,
    }
    json.dump(man, open(os.path.join(VERIF, "MANIFEST.json"), "w"), indent=1)
    print("claimed:", [c["property_id"] for c in checks])


if __name__ == "__main__":
    main()
