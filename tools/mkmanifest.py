#!/venv/bin/python
"""Regenerate /verif/MANIFEST.json from the table below (claimed = a rules/Cxx.py module exists and is listed here)."""
import json
import os

VERIF = os.path.dirname(os.path.dirname(os.path.abspath(__file__)))

NOTE = ("Static analysis only. Trusted base: CPython ast.parse of /repo/src/fparser; import of the package and "
        "ParserFactory.create in a /venv/bin/python subprocess (inspect snapshot: classes, MROs, registries, Pattern constants) -- "
        "no reader is built and nothing is parsed; the oracle tables under /verif/oracle; the rule/exception tables in /verif/rules. "
        "Decides only the structural clauses named in 'text' (necessary conditions of the property), not the behavioural equality itself. "
        "Rules described as 'decided as a table' or 'by interpretation' interpret the AST of one function/class on a committed table of sample inputs (or on sources generated deterministically from committed statement lists and layouts) with the checker's own evaluator (no repository code is imported or executed for them); they decide those samples only. "
        "Implicit exceptions are modelled only for the armed classes (raising str.index, format arity, optional-element and nullable-result "
        "dereference, index on possibly-empty matched text); run-time values are not modelled beyond the finite decision tables named in 'text'.")

CLAIMS = {
    "C08": ("table extraction vs. standard oracle + per-call-site abstract interpretation of the block engine; EndStmtBase/BracketBase engines as finite tables; anchoring of alternations on the sre tree of every pattern (incl. the form Pattern.__abs__ builds); dominance of both-end tests over every delimiter strip; guarded-use exhaustiveness; handler-width lint",
            "Decides: the block-construct table extracted from all 38 BlockBase.match instances and the 18 END statement classes agree with "
            "the Fortran 2003/2008 rules (opening/END pair, name/label comparison flags, bare END refused); the generic engine, specialised "
            "per call site, returns a match only with found_end and raises on exactly the disagreeing (opening, END/intermediate) name pairs "
            "(finite name domain). Not decided: absorption of stray statements for every nest; unbalanced parentheses. Also: EndStmtBase.match and BracketBase.match decided as tables; no full-match pattern anchors only some alternatives of an alternation (391 patterns); each of the 40 x[1:-1] delimiter strips is dominated by tests of both ends; a piece of statement text used only under a content test is not dropped when the test fails; the nameless-main fallback is entered only on NoMatchError; 1 known finding (END INTERFACE generic-spec never compared, F28). Further: CallBase.match as a table with the re-assembly invariant; an END-class statement that can never be a body statement is not absorbed on a label mismatch (2 known findings, F40).", "DESIGN.md §4 C08"),
    "C09": ("typestate (acquire/release on all normal and exceptional exits) over a path-sensitive abstract interpreter; ownership lints",
            "Decides: every symbol-table scope entered by a reader-level matcher is left on every normal and exceptional exit and a failed "
            "match removes its table (38 specialisations of the block engine + Main_Program0.match, exception edges from explicit-raise "
            "summaries over the resolved call graph); the parser factory resets tables and registry on every returning path; only the "
            "factory writes the registry; no parser code writes class/module-level state outside three confirmed owners; the tokeniser "
            "memo is keyed by all arguments and never mutated by callers; symbol-table keys are lower-cased consistently. Not decided: "
            "equality of results across histories. Also: SYMBOL_TABLES.remove is never reached while the function's scope is still open; every scalar flag a call site binds is tracked per instance. Further: a scoping unit entered inside another scope always gets a fresh table (an existing top-level table is re-entered only outside any scope); SymbolTables.remove tries the children of the current scope before the top-level tables.", "DESIGN.md §4 C09"),
    "C06": ("who-may-call over the resolved call graph; exception-class conversion table; guard classification of explicit raises; per-call-site protocol check; dominance of presence tests over raising str.index; format-arity lint; nullable-result contradiction rule; per-None-pattern abstract interpretation of printers; emptiness-before-index dominance",
            "Decides: no call path from the parse/print/read entry points reaches a process-terminating call (3 known sites echoed); every fparser "
            "exception class raised as a signal is converted at Program.__new__; each of the 77 explicit raises of a non-convertible class is "
            "discharged by a guard classification and a matcher raise guarded by the content of the parsed text is a violation (1 known); "
            "source files are opened with the registered decode-error handler; per block-engine call site, every get_*() protocol method exists "
            "on every class its receiver can be; symbol-table clean-up keys are case-normalised. Not decided: termination, the time bound, "
            "implicit exceptions (IndexError etc.). Also: every str.index on matched text is dominated by a test proving the needle present; every literal format expression supplies all its fields (197); a get_*() result tested for None at one site of the block engine is not dereferenced unguarded at another; printers/accessors dereference an optional element only on paths that established it is not None (138 classes); matchers index their text parameter or a piece cut from it only after an emptiness test (79 sites); scope clean-up order (leave, then remove). Further: asserts that depend on the matched text are implied by earlier tests; a possibly-None line dereferenced by the reader is absorbed by next()'s handler; the inverse map and its construction look up only keys they hold; isinstance chains over list children cover every grammar alternative; int() operands convert for every string their pattern matches; regex match objects are dereferenced only after a None test (49 sites).", "DESIGN.md §4 C06"),
    "C10": ("ownership lint, typestate on the node constructor, sibling-contradiction rule between _set_parent and walk; who-may-construct lint",
            "Decides: only _set_parent/Base.__init__ assign .parent; Base.__new__ parents the children of every node it builds before init/return "
            "(typestate over its paths); every init stores what it is given into items/content; _set_parent and walk both fully descend into "
            "lists and tuples and walk is a recursive pre-order traversal in list order; get_root follows .parent; no matcher reuses a node "
            "object (350 matchers). Not decided: stale parents after backtracking through the per-line cache. Also: _set_parent links unconditionally; raw object construction only inside __new__ on cls; no shallow copies of nodes in the parser/reader; explicit-stack traversals recognised. Also: child containers of a constructed node are not changed in place without re-parenting; the reader replays no stored item.", "DESIGN.md §4 C10"),
    "C18": ("interface agreement between __getnewargs__ and __new__ over the class hierarchy; abstract interpretation of __new__ under the copy flag; reachable-state lint (values copy/pickle refuse) over the classes reachable from a node; back-reference lint on the reader",
            "Decides: for each of 661 node classes the tuple returned by the resolved __getnewargs__ binds to the resolved __new__, the _deepcopy "
            "flag is True and under it __new__ returns a fresh object without running a matcher (each distinct __new__ interpreted abstractly, "
            "flag forwarding checked); every attribute __getnewargs__ reads is assigned at every object.__new__ construction site; no class "
            "overrides the copy protocol otherwise. Not decided: equality of the copy's text/structure. Also: no class reachable from a node (reader items, readers, format) stores an open file, lambda, nested function, generator or lock without a __getstate__/__reduce__ (1 known finding: FortranFileReader holds the open file, F19); the reader keeps no item it has handed out besides its queue. Further: every node class is importable by module and qualified name (no class local to a function).", "DESIGN.md §4 C18"),
    "C04": ("path-sensitive dataflow on the quote state; structural lints of the ';' splitter and of splitquote; regex obligations",
            "Decides necessary conditions of layout independence: the quote state of handle_inline_comment is threaded through every "
            "continuation loop and a comment ends character context; ';' is split on the tokenised line only with label/name re-extraction "
            "in the right order and the replace map undone; splitquote types quoted regions as String and case-folds only unquoted text; "
            "label/construct-name extraction obligations. Not decided: tree equality over the layout space. Also: directive items are excluded from ';' splitting, an empty ';' part is skipped, later parts carry exactly their own label/name; case folding of literal-bearing lines only outside String items. Further: one whole iteration of the free-form continuation loop and handle_inline_comment decided as tables; a comment line inside a continuation is recognised whatever the quote state.", "DESIGN.md §4 C04"),
    "C05": ("bounded-exhaustive decision of column predicates and the detector regex (finite tables), interpreted from the AST",
            "Decides: the form detector votes free for no label field/comment/continuation line and for every statement starting in columns "
            "1-5 (354 lines); _is_fix_comment/_is_fix_cont agree with the property's comment introducers and continuation marks; the label "
            "conversion is total and blank-insensitive on columns 1-5 (242 fields); quote state threading; splitquote typing. Not decided: "
            "tree equality of the two renderings. Also: every physical line is tab-expanded and right-stripped before its columns are interpreted; '!' in column 6 obligations. Further: the label extraction of the fixed-form branch is interpreted as a whole (242 fields).", "DESIGN.md §4 C05"),
    "C07": ("consistency lint on message construction; who-raises-with-what; shared counter/span dataflow",
            "Decides (narrow): a quoted source line is source_lines[linecount-1] of the reader whose linecount is printed; every "
            "FortranSyntaxError is raised with the function's reader; the line counter moves by one per line taken/given back on every path "
            "and item spans are tied to it. Not decided: how far look-ahead advanced the counter when the error is raised. Also: the clean-up run while a syntax error propagates cannot replace it by SymbolTableError/ValueError (case-blind table keys, guarded str.index). Also: no ';' line is dropped before the parser sees it; a free-form label is one digit group.", "DESIGN.md §4 C07"),
    "C11": ("per-call-site abstract interpretation of the block engine (class list, consumed=>restored typestate); item typestate; sibling cross-check; sibling rule on the inline flag",
            "Decides: comment/include/preprocessor (and under process_directives, directive) classes are in the class list tried at every "
            "position of all 38 block-engine instances and around program units, both collectors in every round; every reader item and node "
            "is kept or given back on every path and a no-match restores everything; the ignore filter is the single exit of the item loop; "
            "Directive==Comment code; a comment ends character context; comments queue behind their statement. Not decided: exact placement "
            "for every position. Also: every trailing-comment site of handle_inline_comment computes the inline flag and no whole-line comment site sets it. Further: reader options are forwarded by every reader subclass; the directive-prefix patterns anchor all alternatives; handle_inline_comment decided as a table.", "DESIGN.md §4 C11"),
    "C12": ("queue-discipline table; path-sensitive counting; event abstraction (read/append/endline) over get_source_item; finite decision table of the continuation joiner",
            "Decides: who pushes/pops which end of the item queue (';' parts reversed to the front, give-back forwarded to the include reader, "
            "no foreign queue access); every look-ahead is undone; linecount +-1 per line on every path; span start is the counter after the "
            "first read and span end the line of the last appended text on every path to every Line construction. Not decided: item "
            "text/span equality for every layout. Also: free-form continuation joining decided as a table (trailing '&', leading '&' only as first nonblank, '&' inside literals; 20 lines); ';' part construction (empty parts, own label/name). Further: label/construct-name extraction obligations incl. 'name: &'; handle_inline_comment decided as a table.", "DESIGN.md §4 C12"),
    "C13": ("structural lint of the include search; shared queue and class-list analyses; regex obligations",
            "Decides: directories searched in order with a break at the first existing file; unresolved include returned as an item and "
            "Include_Stmt tried at every position in both directive modes; nested reader gets path/include_dirs/ignore_comments; get/put "
            "symmetry across readers; INCLUDE-line regex obligations. Not decided: tree equality for every split point. Also: unresolved Include_Stmt nodes collected before an opener are restored on no-match (typestate shared with C11). Further: the nested include reader receives every reader option; recognition of the INCLUDE line decided before name extraction.", "DESIGN.md §4 C13"),
    "C15": ("statically folded regex literals decided by enumeration; gating/dominance lint; straight-line interpretation of the replacement; must-pass-through on the flow engine",
            "Decides: the three sentinel regexes accept exactly the property's sentinel forms and are compiled for the right source forms "
            "(FortranFormat's properties interpreted for the 4 forms); the replacement puts exactly two blanks at the sentinel; every "
            "replacement is gated by the enabling flag and precedes comment classification on both routes. Not decided: tree equality. Also: in fixed form every line read from the source (also by helper methods found through the call graph) passes the sentinel replacement before comment classification or return. Further: the sentinel pattern is applied to the tab-expanded line; every reader subclass forwards include_omp_conditional_lines.",
            "DESIGN.md §4 C15"),
    "C03": ("table extraction vs. standard oracle; specialisation of the binary-operator engine; regex obligations by exhaustive enumeration; unary engine and Pattern.rsplit/lsplit as finite tables",
            "Decides: the 12-level expression table extracted from the match methods equals F2003 R701-R723 (operator, operand classes, split "
            "side, fall-through, Parenthesis under Primary); the binary engine specialised for right=True/False reaches a match only after the "
            "rightmost/leftmost split and builds operands from their own sides; operator regexes match exactly their tokens and never inside "
            "a longer operator (operator soup up to length 5/6); intrinsic dotted operators are excluded from defined ones (1 known finding: "
            "no retry, F13); exponent literals are atomic (5544 literal/context pairs). Not decided: the parse of each individual string. Also: UnaryOpBase.match and Pattern.rsplit/lsplit decided as tables (cut at last/first operator occurrence, exponent literals re-joined, empty operands refused).",
            "DESIGN.md §4 C03"),
    "C14": ("registry exhaustiveness; head-pattern obligations per directive kind; shared class-list/typestate analyses; finite decision table of directive splicing",
            "Decides: Cpp_*_Stmt classes == CPP_CLASS_NAMES; for the 14 directive kinds of the property the reader's '#' predicate and exactly "
            "the expected class's head pattern accept the canonical samples; backslash continuation yields one CppDirective item before any "
            "Fortran interpretation; the directive matcher is tried at every position and gives its peeked item back; directives before a "
            "failed construct are restored; ';' splitting looks at the tokenised line only. Not decided: position equality for every insertion. Also: match_cpp_directive tries the whole registry for every line; directive items are not ';'-split; backslash-newline splicing adds or removes nothing at the joints (table). Further: in fixed form no '#' line is classed as a comment line (all strict/f2py combinations). Also: alternative include delimiters recorded (1 known finding, F43).",
            "DESIGN.md §4 C14"),
    "C16": ("oracle set comparison; shared scope typestate; dominance of the shadowing lookup over every intrinsic match; must-pass-through for registration; table agreement on the import-time snapshot",
            "Decides: scoping classes == the property's list and each opens a block-engine call site; enter/exit pairing on all paths; lookup "
            "consults own symbols, used modules, ancestors only; an intrinsic reference is produced only after an unsuccessful lookup of the "
            "name as written in the current scope; matched declarations/USEs are always recorded; table keys are case-normalised; create() "
            "clears the tables. Not decided: table contents for every program; cache interactions during backtracking. Also: per instance whose opener is a scoping region a match is reported only with a table registered; Intrinsic_Name.function_names equals keys(generic) ∪ keys(specific) per standard with well-formed arity entries. Further: enter_scope never re-enters an existing table while inside a scope.", "DESIGN.md §4 C16"),
    "C17": ("registry inclusion over both linked grammars (alt + use edges); override-reachability triage; delegation-first dominance; finite regex-language inclusion; alias-mutation lint on class bodies",
            "Decides: every rule/alternative of the linked 2003 registry (550 rules) is reachable in the same order in the 2008 registry; engine "
            "identity tests name the 2008 overrides; by-name constructions of overridden classes are covered; no 2008 class/keyword reachable "
            "from the 2003 grammar; each 2008-only construct reachable from Program in 2008; reachable matchers resolve their names; 2008 "
            "matchers that delegate try the 2003 form first, re-implementing ones include the 2003 keyword language; no shared mutable class "
            "state; the factory always relinks. Not decided: text equality of the two parsers' output. Also: a class body that aliases another class's table never mutates it (33 derived tables); every 2003 intrinsic is a 2008 intrinsic with the same arity bounds. Also: a 2003 matcher records an optional keyword its 2008 override records (1 known finding, F41).", "DESIGN.md §4 C17"),
    "C01": ("abstract interpretation of match return shapes (following engine delegation with bound class arguments) vs. printer index usage; per-None-pattern abstract interpretation of printers; must-pass-through",
            "Decides necessary conditions of the round trip: every class that can build a node resolves a printer; the tuple arities every match "
            "can return are accepted by the resolved init and agree with the constant indices, format conversion counts, unpack counts and "
            "length guards of the resolved printer (310 classes); every element that can hold a node or input text is read by the printer "
            "(243 classes). Not decided: equality of trees/text after re-parsing. Also: elements read in value position (R3 refined), block printers, WORDClsBase as a table, dead input pieces, the intrinsic arity error is raised only after the shadowing lookup, optional elements printed/dereferenced only under a None test (per None-pattern, 138 classes), content[start_idx]. Further: text cut behind a delimiter found with find()/index() starts exactly len(delimiter) later (115 sites), keyword prefix tests compare len(KEYWORD) characters and the text continues there (83). Also decided as tables: SeparatorBase, KeywordValueBase, SequenceBase; per None-pattern every content element is printed on every printer path (240 classes).", "DESIGN.md §4 C01"),
    "C02": ("path-sensitive may-taint (placeholder text must pass the inverse map before reaching a constructor); case-folding lint on leaf flows; ownership/shape lints",
            "Decides: literal-bearing leaves store input text without case folding; in the 52 functions that tokenise a line no child node is "
            "built from placeholder-bearing text; Program.match returns what it collected (1 known finding); no reader error becomes "
            "end-of-input (1 known finding); all 118 line-level classes print label and construct name through StmtBase.tofortran, which "
            "includes label/name/text on every path; the inverse map is bounded and ordered; give-backs are reversed; splitquote never "
            "folds literals; arity/element coverage shared with C01; consumed nodes kept or restored. Not decided: token-sequence equality. Also: nested-key expansion in string_replace_map per occurrence; string engines as tables; case folding only outside String items; ';' splitter (empty parts skipped). Further: delimiter offsets and keyword prefixes (shared with C01); handle_inline_comment with splitquote decided as a table (20 rows: '!' inside literals, doubled quotes, continued literals). Also: an optional keyword a matcher skips is recorded (1 known finding, F41); alternative delimiter pairs are recorded (1 known finding, F42); per-pattern printing of every content element; no length test contradicts an earlier length guard.",
            "DESIGN.md §4 C02"),
    "C19": ("prefix viability of printed keywords on the sre parse tree of each class's matcher; attribute-protocol and purity lints; may-taint of tokenised text over the 85 process_item methods; queue-discipline lint; finite table of the label field",
            "Decides over fparser.one's statement classes: the literal keyword prefix each printer emits is a viable prefix of the class's own "
            "match regex; every block statement names an END class whose regex accepts the END line it prints; blocks print all content; "
            "printers read only assigned attributes; analyze() never mutates a printed attribute in place. Not decided: equality of "
            "regenerated statements. Also: FortranParser.put_item pushes to the front of the reader's queue; tokenised text reaches a printed attribute only with the replace map undone (85 process_item methods, 26 reasoned name/label positions); the item of a statement embedded in a one-line IF/WHERE/FORALL is a label-free copy; fixed-form label field within columns 1-5 (table). Further: no blank squeezing / case folding after the replace map is undone.", "DESIGN.md §4 C19"),
}

# texts of rules added after the table above was written (appended to 'text')
ADDENDA = {
    "C01": "Later additions: the free-form continuation decision table (shared with C04.R8, now with label/construct-name extraction "
           "interpreted from the source and blank-line rows); DATA/NAMELIST/COMMON/DIMENSION list-statement matchers decided as tables (37 rows); index provenance (C01.R21). Also: class-local round trip by interpretation over 265 sample texts (C01.R22: accepted, literals/groups carried over, fixpoint; children are recording stubs validated two levels deep); string_replace_map and its inverse interpreted on 15 lines (R23); block printers on value-comparing stubs (R24); ';' split (R25); list-element registration of 2008 overrides (R26). Found and fixed F49, F51. The same round trip at full depth (R28/R29: the sample parsed all the way down by interpretation, equal tree and same text on re-parse; 1 known row F62). Round 6: label and construct name printed on every path (R30 = C02.R5), inline-comment table (R31), free-form layouts through the interpreted reader (R32 = C04.R12). Whole programs by interpretation (reader, Base.__new__, BlockBase.match, block classes, statement matchers, symbol tables and printers interpreted; 22 sample programs): regenerated text accepted again, same tree shape, prints to itself, both standards, comments kept/ignored (R33).",
    "C02": "Later additions: continuation decision table (C02.R19); list-statement matcher tables with the re-assembly invariant (C02.R20); index provenance (C02.R21, 282 slices; found and fixed F45, F46). Also: the class-local round trip with token-level equality up to listed canonicalisations (C02.R22; 2 known rows F54, F55); replace-map table (R23; F50, F51 fixed); block printers (R24); full-depth round trip at token level (R25). Whole programs by interpretation (reader, Base.__new__, BlockBase.match, block classes, statement matchers, symbol tables and printers interpreted; 22 sample programs): names in their spelling, literals and numbers of the source re-appear in order, nothing else (R26). Round 7: the reader on generated free-form layouts incl. ';'-joined statements (R27 = C04.R12), separator rows of the list/sequence engines (R28); the statement world tokenises with the interpreted string_replace_map.",
    "C03": "Later additions: BinaryOpBase.match decided as a table of 26 rows (operands ending in a dot, excluded operators, split side). Also: BinaryOpBase rows with operand classes that refuse their text; no literal with a signed exponent stays visible after the replace map (R10); expressions parsed all the way down by interpretation, 307 operator pairs grouped as the precedence table requires (R11; the 7 F13 expressions are echoed as known). Round 6: no intrinsic operator level claims any other dotted word of up to 3/4 letters (R3).",
    "C04": "Later additions: continuation rows for lines that begin with digits / name: (never a label or construct name) and blank lines. Also: the continuation loop interpreted over multi-line statements; layout widening of every blank and upper-casing of 354 samples (R10, 1311 texts; found and fixed F58, F59); the standard's optional-blank keyword pairs (R11, 30 pairs; found and fixed F60, F61). Round 6: The reader by interpretation on generated layouts (FortranStringReader/FortranFileReader, sourceinfo and splitline interpreted from the AST on sources rendered from 3 statement lists; the expected items are known by construction): free form detected and the same statements (text, label, name; names keep their spelling) under 13 layouts (R12; found and fixed F65, F69). Reader and parser together on whole programs: six free-form layouts of the sample programs give the tree and text of the plain layout (R13).",
    "C05": "Later additions: fixed-form continuation table (R9), inline-comment table (R10), and no memoised function on the "
           "format-detection / reading path reads the file system (R11, 83 functions). Also: open-literal state across comment/blank lines in the fixed-form continuation table. Round 6: The reader by interpretation on generated layouts (FortranStringReader/FortranFileReader, sourceinfo and splitline interpreted from the AST on sources rendered from 3 statement lists; the expected items are known by construction) in fixed form under 11 layouts, a 70k/150k-character file by name and as file object, '&' followed by blanks and labelled free-form lines in the detector table (R12; found and fixed F66, F69; 2 known findings F67, F73). Reader and parser together on whole programs: five fixed-form layouts are read as fixed form and give the tree and text of the free-form program (R13). Round 7: a named case for a short line that ends with a word and a continuation from column 7 (known F73, found by R13 on a new sample). Round 8: the detector on a file object that has already been read from (whole file judged, position restored).",
    "C06": "Later additions: accessor indices within matcher arity (R19, 176 sites); block engine addresses the opening statement by "
           "start_idx (R20); no dereference on a path on which the variable is None for certain (R21, path-sensitive, 40 functions, 1 reviewed exception). Also: the process-terminating name-mismatch path of the block engine is enabled for the eight program-unit blocks only (R22); the reader's item constructors agree on recorded state (R23). Round 6: Base.__new__ interpreted on four synthetic registries whose alternatives lead back to a class being tried: NoMatchError, never unbounded recursion (R24). Whole programs by interpretation (reader, Base.__new__, BlockBase.match, block classes, statement matchers, symbol tables and printers interpreted; 22 sample programs): 33 hand-written and 14/160 generated malformed sources (token mutants of the samples) end in a tree or FortranSyntaxError (R25). Round 7: a raise under a length test of the text alone is a precondition on the callers, decided by interpreting every matcher that names the class on 980 probe texts (R3; F5 was repaired in the callers and is decided this way).",
    "C07": "Later additions: definite-None dereference on clean-up paths (R10); the statement ends where the continuation table says (R11). Round 6: at the moment a statement is delivered the interpreted reader's line counter and quoted line are the statement's last physical line, on every free-form layout (R12). Whole programs by interpretation (reader, Base.__new__, BlockBase.match, block classes, statement matchers, symbol tables and printers interpreted; 22 sample programs): every statement line replaced by non-Fortran text is reported at that line with that text (R13).",
    "C08": "Later additions: only Program.match's end-of-input probe may call reader.next() inside the parser (R13, who-may-call). Also: string engines match the whole string (R14; 1 known finding F56); a program unit's END statement is not reachable as an executable construct (R15; 2 known findings F57); WORDClsBase.match with a literal keyword decided as a table (R16). Whole programs by interpretation (reader, Base.__new__, BlockBase.match, block classes, statement matchers, symbol tables and printers interpreted; 22 sample programs): 164 ill-nested variants rejected (R17; 1 known finding F70). Give-back completeness for every local built from the reader, helper functions included (R18). Round 7: BLOCK DATA (a named unit that opens no scoping region) is always among the mutated samples.",
    "C09": "Later additions: no instance attribute mutated in place is bound to a module/class-level mutable or mutable default "
           "(R11, 24 bindings); the table registry is wiped as a whole only by ParserFactory.create (R12). Also: memo purity extended to process-wide parser state (R13, 742 functions). Round 6: what BlockBase.match returned is final in its 35 callers -- no raise / other return afterwards unless the table is removed (R14). The symbol-table module against a reference model (R15); Whole programs by interpretation (reader, Base.__new__, BlockBase.match, block classes, statement matchers, symbol tables and printers interpreted; 22 sample programs): nothing left after a failed parse except the known F16 tables, next parse as fresh (R16).",
    "C10": "Round 6: nodes compare by value, so no parser code looks a node up in a collection by equality (list.remove/index/count/in; R9). Whole programs by interpretation (reader, Base.__new__, BlockBase.match, block classes, statement matchers, symbol tables and printers interpreted; 22 sample programs): each node once, parent = holder, walk() in source order (R10).",
    "C11": "Later additions: a strict_order block lists only comment-absorbing parts (R11). Also: no reader method calls self.put_item() on an item it discovers (R6); give-back is last-in first-out on every path (R12, path-sensitive stack). Round 6: comments through the interpreted reader: once, text/line/inline flag/place, also with conditional lines or directive processing enabled; ignored = removed (R13); block printers with banner comments (R14); no parser code overrides the reader's comment option (R15). Whole programs by interpretation (reader, Base.__new__, BlockBase.match, block classes, statement matchers, symbol tables and printers interpreted; 22 sample programs): comments once, unchanged, in place; ignored = removed (R16). Give-back completeness (R17 = C08.R18); the consumed=>restored typestate covers helper functions.",
    "C12": "Later additions: physical lines are newline-terminated lines only (R9, shared with C07.R5). Also: the ';' split decision is a function of the item alone (no loop-history flag). Round 6: the item stream through the interpreted reader on all free and fixed layouts: once, in order, exact spans, put_item() restores, get_item() at the end is None (R10). Give-back completeness (R11 = C08.R18). Round 8: the nested include reader gets every option of the including reader (R12 = C13.R1).",
    "C13": "Later additions: block engine addresses the opening statement by start_idx with includes collected before it (R6); the default "
           "include path is per reader, never a shared mutable (R7). Also: a found include file is always expanded (no early return guarded by a grow-only collection); memo purity of the include search (R8); strict-order blocks list only parts (R9). Round 6: INCLUDE through the interpreted reader on a virtual file system: first directory wins, nested include, fixed-form include files, unresolved include kept, read-ahead-and-restore consumer (R10; found F69). Whole programs by interpretation (reader, Base.__new__, BlockBase.match, block classes, statement matchers, symbol tables and printers interpreted; 22 sample programs) on a virtual file system: statements moved into an include file give the original tree; unresolved include kept as a node (R11).",
    "C14": "Later additions: handle_cpp_directive interpreted in free, fixed and strict fixed form, with and without indentation of '#'; the source-form detector does not vote on directive lines (R10, 66 lines; found and fixed F47). Also: strict-order blocks list only parts (R11); match_cpp_directive interpreted on a model reader: each directive line of the oracle reaches the class the oracle names (R12). Round 6: 19 kinds of directive lines inserted into free and fixed layouts through the interpreted reader: one item each, in place, spliced text, detected form unchanged (R13; found and fixed F68). Whole programs by interpretation (reader, Base.__new__, BlockBase.match, block classes, statement matchers, symbol tables and printers interpreted; 22 sample programs): inserted directive lines kept once, unchanged, in order; rest of the text unchanged (R14). Round 8: without its directive nodes the tree is the tree of the original program, class by class and statement by statement (part nodes a directive is wrapped in or splits not counted); a directive between the DO statements of a shared-termination nest (1 known finding F74) (R14).",
    "C15": "Later additions: OMP continuation decision table incl. lines that continue an open character literal (R5). Also: the continuation loop interpreted over multi-line conditional statements; the nested include reader is given the conditional-line option (R6). Round 6: statements hidden behind the sentinel in free and fixed layouts through the interpreted reader: option on = same items, '!$omp' stays a comment; option off = comments (R7). Reader and parser together on whole programs: statements behind '!$ ' parse as without sentinel when enabled, as absent when disabled (R8).",
    "C16": "Later additions: the loops recording declared entities and ONLY-list names are total (R9: per-iteration must-pass-through, no break/return). Round 6: the loop recording declared entities is reached under the three confirmed guards only (R9). The symbol-table module interpreted against a reference model of scoping (R10). Whole programs by interpretation (reader, Base.__new__, BlockBase.match, block classes, statement matchers, symbol tables and printers interpreted; 22 sample programs): tables/nesting/symbols as the scoping units say, intrinsic references exactly where no enclosing scope declares the name (R11). Round 7: a BLOCK that is read twice after backtracking (non-block DO) still has exactly one table with its declaration (R11, sample blockdo; found and fixed F72); re-entering a nested table is accepted only for the same start-statement node (R3).",
    "C17": "Later additions: a 2008 matcher that re-calls the generic engine passes the 2003 matcher's option flags (R9c); 2008 printers "
           "agree with the 2003 printers on every concrete 2003 result pattern (R13, both printers interpreted). Also: isinstance tests in shared code name classes whose 2008 counterparts derive from them (R14, 39 tests); the class-local round trip under both grammars gives the same acceptance and text (R15, 251 samples); 2008 overrides of list elements register themselves (R16). Round 6: strict-order blocks list only parts (R17 = C11.R11); no parser code overrides the reader's comment option (R18). Whole programs by interpretation (reader, Base.__new__, BlockBase.match, block classes, statement matchers, symbol tables and printers interpreted; 22 sample programs): 2003 samples same text under 2008; 2008 samples rejected for 2003 (R19). Round 7: the samples again with SYMBOL_TABLES.enable_checks(True) in force, a non-default configuration (R19).",
    "C18": "Later additions: no attribute hook reading instance state and no immutable-builtin subclass whose __new__ cannot take the plain "
           "value on any class reachable from a tree (R7, 535 classes). Also: regex match objects and `other.attr = <call>` in the reachable-state rule (R4); nodes of a block are not chained to each other (R8). Round 6: a __deepcopy__/__copy__ of a reader item class that can return self shares the item (R3). Round 7: a hand-written __deepcopy__(self, memo) on a node class is decided by a may-share analysis (state of self reaches the copy only through copy.deepcopy(v, memo) or under a test proving it immutable; the memo entry precedes the first copy; 4 node classes with nested containers in items are the witness that an element-wise copy is not enough) (R3); a dict/list subclass whose item-storing method reads instance attributes cannot be unpickled (R7c).",
    "C19": "Later additions: fparser1 length/kind selector helpers decided as tables (R12, 46 rows; found and fixed F44); the list/spec helpers of fparser.common.utils decided as tables with a model of the reader item (R13, 24 rows; 2 known rows, F48). Also: statement round trip by interpretation over 162 samples (R14: class match pattern, process_item, printer; token-level equality up to 9 listed canonicalisations; found and fixed F52, F53). Block filling by interpretation through BeginSource on 11 small programs: every line lands in the block and at the depth the sample states (R15; found and fixed F64, 2 known rows F63). Round 6: the tokeniser and ';' rules shared with fparser2 (R16-R18) and the item stream through the interpreted reader (R19). Round 7: put-back, per-call comment override, strict fixed form (f77) cards in the item stream (1 known finding F71), the inline-comment table (R20).",
}

READER_TECH = "interpretation of the whole reader (readfortran, sourceinfo, splitline) with the checker's own evaluator on sources generated from committed statement lists and layouts"
TECH_ADDENDA = {
    "C01": "class-level round trips by interpretation on committed samples; " + READER_TECH,
    "C02": "class-level round trips by interpretation on committed samples; whole-program interpretation",
    "C03": "expression grouping by interpretation against an independent precedence table",
    "C04": "layout metamorphosis of committed samples by interpretation; " + READER_TECH,
    "C05": READER_TECH + "; whole-program interpretation of fixed-form layouts",
    "C06": "interpretation of Base.__new__ on synthetic class registries; whole-program interpretation of malformed sources",
    "C07": READER_TECH,
    "C08": "whole-program interpretation of ill-nested variants",
    "C16": "interpretation of the symbol-table module against a reference model; whole-program interpretation",
    "C09": "post-dominance of the scope engine's result in its callers; interpretation of the symbol-table module against a reference model; whole-program interpretation",
    "C10": "who-may-compare lint (equality-based look-ups of nodes); whole-program interpretation (parent links, walk)",
    "C11": READER_TECH + "; who-may-override lint on the reader's comment option",
    "C12": READER_TECH,
    "C13": READER_TECH + " with a virtual file system",
    "C14": READER_TECH,
    "C15": READER_TECH + "; whole-program interpretation",
    "C17": "two-standards comparison by interpretation on committed samples and whole programs",
    "C19": "statement and block round trips of fparser1 by interpretation on committed samples; " + READER_TECH,
}

NA = {
    "C20": "bounds a run-time count (rule-constructor calls as a function of input size); no sound static complexity argument for a "
           "backtracking string-splitting parser is in reach, and the only structural handle would be a frozen source fragment",
}


def main():
    props = [json.loads(l) for l in open(os.path.join(VERIF, "properties.jsonl"))]
    checks = []
    na = []
    for p in props:
        pid = p["id"]
        if pid in CLAIMS and os.path.exists(os.path.join(VERIF, "rules", pid + ".py")):
            tech, text, ref = CLAIMS[pid]
            if pid in ADDENDA:
                text = text + " " + ADDENDA[pid]
            checks.append({
                "property_id": pid,
                "quick_cmd": "./check %s --tier quick" % pid,
                "thorough_cmd": "./check %s --tier thorough" % pid,
                "evidence_file": "/verif/evidence/%s.json" % pid,
                "replay_cmd_template": "./check %s --explain {path}" % pid,
                "engine": "sa",
                "level_claimed": {"category": "other", "text": text, "design_ref": ref},
                "level_note": NOTE,
                "technique": "static analysis: " + tech + ("; " + TECH_ADDENDA[pid] if pid in TECH_ADDENDA else ""),
            })
        else:
            na.append({"property_id": pid, "reason": NA.get(pid, "check not built yet (build in progress); see DESIGN.md")})
    man = {
        "version": 1,
        "setup_cmd": "true",
        "hooks": {"guard": "FPARSER_VERIF",
                  "enable": "no hooks are needed: the checks read /repo's source (ast) and import it (inspect); nothing in /repo is instrumented",
                  "baseline_off_cmd": "cd /repo && /venv/bin/python -m pytest -ra -q -p no:cacheprovider --timeout=900 --continue-on-collection-errors",
                  "source_commits": [], "add_only": True},
        "engines": [{"name": "sa", "path": "/verif/sa", "serves_properties": [c["property_id"] for c in checks],
                     "kind_free_text": "repository-specific static analysis: AST index + import-time introspection, resolved call graph, "
                                       "explicit may-raise summaries, path-sensitive abstract interpreter with typestate, regex-language "
                                       "checks on literal patterns, table extraction against oracles"}],
        "checks": checks,
        "notes": "Static-analysis family only; see DESIGN.md. Exit 0 ok / 1 VIOLATION / 2 ANALYSIS-ERROR.",
        "not_applicable": na,
    }
    json.dump(man, open(os.path.join(VERIF, "MANIFEST.json"), "w"), indent=1)
    print("claimed:", [c["property_id"] for c in checks])


if __name__ == "__main__":
    main()
