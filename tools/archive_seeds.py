#!/venv/bin/python
"""Copy verified seeds from /tmp/seedout into /verif/seeded/<id>/ and compute which checks catch each (all claimed checks,
run against a scratch copy with the patch applied; /repo is never touched)."""
import concurrent.futures as cf
import json
import os
import shutil
import subprocess
import sys

VERIF = os.path.dirname(os.path.dirname(os.path.abspath(__file__)))
sys.path.insert(0, os.path.join(VERIF, "tools"))
import seed as S   # noqa


ROUND = ""


def rebased_patch(tmp):
    """git-style diff of the patched scratch copy against the current /repo working tree (so that `git -C /repo apply` works
    after later fix: commits moved the context)."""
    r = subprocess.run(["diff", "-ruN", "--exclude=__pycache__", "/repo/src", os.path.join(tmp, "src")], capture_output=True, text=True)
    out = []
    for line in r.stdout.splitlines(True):
        if line.startswith("diff -ruN"):
            continue
        if line.startswith("--- /repo/src/"):
            rel = line[len("--- /repo/"):].split("\t")[0].strip()
            out.append("diff --git a/%s b/%s\n" % (rel, rel))
            out.append("--- a/%s\n" % rel)
        elif line.startswith("+++ "):
            rel = "src/" + line[4:].split("\t")[0].strip().split("/src/", 1)[1]
            out.append("+++ b/%s\n" % rel)
        else:
            out.append(line)
    return "".join(out)


def work(d):
    pid = d.split("/")[-2]
    n = d.split("/")[-1]
    sid = "%s-%s%s" % (pid, ROUND, n)
    out = os.path.join(VERIF, "seeded", sid)
    os.makedirs(out, exist_ok=True)
    shutil.copy(os.path.join(d, "demo.py"), out)
    if os.path.exists(os.path.join(d, "patch.diff")):
        shutil.copy(os.path.join(d, "patch.diff"), os.path.join(out, "patch.orig.diff"))
    meta = json.load(open(os.path.join(d, "meta.json")))
    ver = {}
    if os.path.exists(os.path.join(d, "verify.json")):
        try:
            ver = json.load(open(os.path.join(d, "verify.json")))
        except ValueError:
            ver = {}
    man = json.load(open(os.path.join(VERIF, "MANIFEST.json")))
    props = [c["property_id"] for c in man["checks"]]
    tmp = S.scratch(os.path.join(d, "patch.diff"))
    res = {}
    try:
        open(os.path.join(out, "patch.diff"), "w").write(rebased_patch(tmp))
        for p in props:
            env = dict(os.environ, VERIF_EVIDENCE_DIR=os.path.join(tmp, "ev"))
            r = subprocess.run([os.path.join(VERIF, "check"), p, "--repo", tmp], capture_output=True, text=True, env=env)
            rules = sorted({l.split()[0] for l in r.stdout.splitlines() if l.startswith("  C")})
            res[p] = {"exit": r.returncode, "rules": rules}
    finally:
        shutil.rmtree(tmp)
    meta_out = {
        "id": sid,
        "property": meta.get("property", pid),
        "summary": meta.get("summary"),
        "needs": meta.get("needs"),
        "files_changed": meta.get("files_changed"),
        "origin": "independent sub-agent given only the property text and a scratch worktree" + (
            " (later rounds: additionally told which mechanisms the earlier rounds had already explored)" if ROUND else ""),
        "verified": {"how": "tools/seed.py verify: patch applied to a scratch copy of /repo; demo.py run without/with the patch; full test-suite run with the patch",
                     "demo_clean_rc": ver.get("demo_clean_rc"), "demo_patched_rc": ver.get("demo_patched_rc"), "suite": ver.get("suite"), "valid": ver.get("valid")},
        "caught_by": {p: v["rules"] for p, v in res.items() if v["exit"] == 1},
        "declined_by": [p for p, v in res.items() if v["exit"] == 2],
        "own_check_catches": res.get(pid, {}).get("exit") == 1,
    }
    json.dump(meta_out, open(os.path.join(out, "meta.json"), "w"), indent=1)
    return sid, meta_out["own_check_catches"], sorted(meta_out["caught_by"]), meta_out["declined_by"]


def main():
    global ROUND
    dirs = []
    root = sys.argv[1] if len(sys.argv) > 1 else "/tmp/seedout"
    ROUND = sys.argv[2] if len(sys.argv) > 2 else ""
    for pid in sorted(os.listdir(root)):
        pd = os.path.join(root, pid)
        if not os.path.isdir(pd):
            continue
        for n in sorted(os.listdir(pd)):
            d = os.path.join(pd, n)
            if os.path.exists(os.path.join(d, "patch.diff")) and os.path.exists(os.path.join(d, "meta.json")):
                dirs.append(d)
    rows = []
    with cf.ThreadPoolExecutor(max_workers=14) as ex:
        for row in ex.map(work, dirs):
            rows.append(row)
            print(row)
    own = sum(1 for r in rows if r[1])
    anyc = sum(1 for r in rows if r[2])
    print("seeds: %d; caught by the property's own check: %d; caught by some check: %d" % (len(rows), own, anyc))


if __name__ == "__main__":
    main()
