#!/bin/bash
# verify every seed under $1 (default /tmp/seedout): demo passes clean / fails patched / suite passes patched; results in $1/verify.log
ROOT=${1:-/tmp/seedout}
for d in $ROOT/C*/[0-9]; do
  if [ -f $d/patch.diff ] && [ -f $d/meta.json ] && [ ! -f $d/verify.json ]; then
    /verif/tools/seed.py verify $d > $d/verify.json 2>&1
    echo "$d $(grep -o '"valid": [a-z]*' $d/verify.json)" >> $ROOT/verify.log
  fi
done
