#!/bin/bash
# verify every seed under /tmp/seedout (demo passes clean / fails patched / suite passes patched); results in /tmp/seedout/verify.log
for d in /tmp/seedout/C*/[0-9]; do
  if [ -f $d/patch.diff ] && [ ! -f $d/verify.json ]; then
    /verif/tools/seed.py verify $d > $d/verify.json 2>&1
    echo "$d $(grep -o '"valid": [a-z]*' $d/verify.json)" >> /tmp/seedout/verify.log
  fi
done
