#!/venv/bin/python
"""Work with seeded changes (never touches /repo).
  tools/seed.py verify <dir>          apply patch.diff to a scratch copy of /repo, run demo.py without/with it and the test-suite with it
  tools/seed.py check <dir> [Cxx ...] run the named checks (default: all claimed in MANIFEST) against the patched scratch copy
"""
import json
import os
import shutil
import subprocess
import sys
import tempfile

VERIF = os.path.dirname(os.path.dirname(os.path.abspath(__file__)))


def scratch(patch):
    tmp = tempfile.mkdtemp(prefix="vseed_", dir="/tmp")
    shutil.copytree("/repo/src", os.path.join(tmp, "src"), ignore=shutil.ignore_patterns("__pycache__"))
    for f in ("pyproject.toml",):
        shutil.copy(os.path.join("/repo", f), tmp)
    if patch:
        r = subprocess.run(["patch", "-p1", "-s", "-F3", "--no-backup-if-mismatch", "-d", tmp, "-i", os.path.abspath(patch)], capture_output=True, text=True)
        if r.returncode != 0:
            shutil.rmtree(tmp)
            raise SystemExit("patch does not apply: " + r.stdout + r.stderr)
    return tmp


def run_demo(tmp, demo):
    env = dict(os.environ, PYTHONPATH=os.path.join(tmp, "src"), PYTHONDONTWRITEBYTECODE="1")
    r = subprocess.run(["/venv/bin/python", os.path.abspath(demo)], capture_output=True, text=True, env=env, cwd=tmp, timeout=600)
    return r.returncode, (r.stdout + r.stderr)[-400:]


def main():
    cmd, d = sys.argv[1], sys.argv[2]
    patch = os.path.join(d, "patch.diff")
    if cmd == "verify":
        demo = os.path.join(d, "demo.py")
        clean = scratch(None)
        try:
            rc0, out0 = run_demo(clean, demo)
        finally:
            shutil.rmtree(clean)
        tmp = scratch(patch)
        try:
            rc1, out1 = run_demo(tmp, demo)
            env = dict(os.environ, PYTHONPATH=os.path.join(tmp, "src"), PYTHONDONTWRITEBYTECODE="1")
            r = subprocess.run(["/venv/bin/python", "-m", "pytest", "-q", "-p", "no:cacheprovider", "-n", "8", "src"],
                               capture_output=True, text=True, env=env, cwd=tmp, timeout=3000)
            summary = r.stdout.strip().splitlines()[-1] if r.stdout.strip() else r.stderr[-200:]
        finally:
            shutil.rmtree(tmp)
        ok = rc0 == 0 and rc1 != 0 and " failed" not in summary and "error" not in summary.lower() and "passed" in summary
        print(json.dumps({"dir": d, "demo_clean_rc": rc0, "demo_patched_rc": rc1, "suite": summary, "valid": ok,
                          "demo_patched_tail": out1[-200:]}, indent=1))
        return 0 if ok else 1
    if cmd == "check":
        props = sys.argv[3:]
        if not props:
            man = json.load(open(os.path.join(VERIF, "MANIFEST.json")))
            props = [c["property_id"] for c in man["checks"]]
        tmp = scratch(patch)
        res = {}
        try:
            for p in props:
                env = dict(os.environ, VERIF_EVIDENCE_DIR=os.path.join(tmp, "ev"))
                r = subprocess.run([os.path.join(VERIF, "check"), p, "--repo", tmp], capture_output=True, text=True, env=env)
                lines = [l for l in r.stdout.splitlines() if l.startswith(("  C", "ANALYSIS-ERROR"))]
                res[p] = (r.returncode, lines[:3])
        finally:
            shutil.rmtree(tmp)
        for p, (rc, lines) in res.items():
            if rc != 0:
                print("%s exit %d" % (p, rc))
                for l in lines:
                    print("     " + l[:220])
        print("caught by: %s" % [p for p, (rc, _) in res.items() if rc == 1])
        return 0


if __name__ == "__main__":
    sys.exit(main())
