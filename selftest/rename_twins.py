#!/venv/bin/python
"""Behaviour-preserving twins by renaming: every local variable (not a parameter) of one function of /repo/src is renamed
consistently; each claimed check must still exit 0 on the result (a rule keyed to a local name would fire or lose its anchor).
Usage: selftest/rename_twins.py [--jobs 16] [--only FUNC-SUBSTRING] [--checks C04,C12]
Exit 0 when every check is silent on every twin; exit 2 otherwise (a defect of the checker, never a verdict about /repo)."""
import argparse
import ast
import concurrent.futures as cf
import io
import json
import os
import shutil
import subprocess
import sys
import tempfile
import tokenize

HERE = os.path.dirname(os.path.abspath(__file__))
VERIF = os.path.dirname(HERE)

TARGETS = [
    ("common/readfortran.py", ["FortranReaderBase.get_source_item", "FortranReaderBase._next", "FortranReaderBase.next",
                               "FortranReaderBase.get_single_line", "FortranReaderBase.handle_inline_comment",
                               "FortranReaderBase.handle_multilines", "FortranReaderBase.handle_cf2py_start", "Line.get_line",
                               "extract_label", "extract_construct_name", "_is_fix_comment"]),
    ("common/sourceinfo.py", ["get_source_info_str", "get_source_info"]),
    ("common/splitline.py", ["string_replace_map", "splitquote", "splitparen", "StringReplaceDict.__call__", "_next_quote"]),
    ("two/utils.py", ["Base.__new__", "BlockBase.match", "BlockBase.tofortran", "StmtBase.tofortran", "EndStmtBase.match", "WORDClsBase.match",
                      "BinaryOpBase.match", "SequenceBase.match", "_set_parent", "walk", "KeywordValueBase.match", "CallBase.match",
                      "BracketBase.match", "SeparatorBase.match", "UnaryOpBase.match", "get_child"]),
    ("two/Fortran2003.py", ["Program.match", "Comment.__new__", "add_comments_includes_directives", "Type_Declaration_Stmt.add_to_symbol_table",
                            "Use_Stmt.match", "Intrinsic_Function_Reference.match", "Main_Program0.match", "Program.__new__",
                            "match_comment_or_include", "Entity_Decl.match", "Component_Decl.match", "Char_Selector.match"]),
    ("two/symbol_table.py", ["SymbolTables.enter_scope", "SymbolTables.remove", "SymbolTable.lookup", "SymbolTable.del_child",
                             "ModuleUse.__init__", "SymbolTable.add_data_symbol"]),
    ("two/parser.py", ["ParserFactory.create", "ParserFactory._setup"]),
    ("two/C99Preprocessor.py", ["match_cpp_directive"]),
    ("one/statements.py", ["Assignment.process_item"]),
    ("common/base_classes.py", ["BeginStatement.fill", "BeginStatement.process_subitem"]),
]


def find_func(tree, qual):
    parts = qual.split(".")
    body = tree.body
    node = None
    for p in parts:
        node = next((n for n in body if isinstance(n, (ast.FunctionDef, ast.ClassDef)) and n.name == p), None)
        if node is None:
            return None
        body = node.body
    return node if isinstance(node, ast.FunctionDef) else None


def rename_locals(src, func):
    params = {a.arg for a in func.args.posonlyargs + func.args.args + func.args.kwonlyargs}
    if func.args.vararg:
        params.add(func.args.vararg.arg)
    if func.args.kwarg:
        params.add(func.args.kwarg.arg)
    declared = set()
    for n in ast.walk(func):
        if isinstance(n, (ast.Global, ast.Nonlocal)):
            declared.update(n.names)
    locals_ = set()
    for n in ast.walk(func):
        if isinstance(n, ast.Name) and isinstance(n.ctx, ast.Store):
            locals_.add(n.id)
        if isinstance(n, ast.ExceptHandler) and n.name:
            locals_.add(n.name)
    # names of nested functions / classes stay as they are (their `def` is not touched)
    for n in ast.walk(func):
        if isinstance(n, (ast.FunctionDef, ast.ClassDef)) and n is not func:
            locals_.discard(n.name)
    locals_ -= params | declared | {"_"}
    # nested functions' own parameters are left alone
    if not locals_:
        return None, 0
    lines = src.split("\n")
    lo, hi = func.lineno - 1, func.end_lineno
    seg = "\n".join(lines[lo:hi]) + "\n"
    out = []
    toks = list(tokenize.generate_tokens(io.StringIO(seg).readline))
    depth = 0
    for i, t in enumerate(toks):
        if t.type == tokenize.OP and t.string in "([{":
            depth += 1
        if t.type == tokenize.OP and t.string in ")]}":
            depth -= 1
        s = t.string
        if t.type == tokenize.NAME and s in locals_:
            j = i - 1
            while j >= 0 and toks[j].type in (tokenize.NL, tokenize.COMMENT, tokenize.NEWLINE, tokenize.INDENT, tokenize.DEDENT):
                j -= 1
            prev = toks[j] if j >= 0 else None
            nxt = toks[i + 1] if i + 1 < len(toks) else None
            is_attr = prev is not None and ((prev.type == tokenize.OP and prev.string == ".") or
                                            (prev.type == tokenize.NAME and prev.string in ("def", "class")))
            is_kw = depth > 0 and nxt is not None and nxt.type == tokenize.OP and nxt.string == "=" and prev is not None \
                and prev.type == tokenize.OP and prev.string in "(,"
            if not is_attr and not is_kw:
                s = "v_" + s
        out.append((t.type, s, t.start, t.end, t.line))
    # rebuild keeping the layout: replace by columns line by line
    new_lines = lines[lo:hi]
    # apply replacements from the end of each line so that columns stay valid
    repl = {}
    for (ty, s, start, end, _), t in zip(out, toks):
        if s != t.string:
            repl.setdefault(start[0] - 1, []).append((start[1], end[1], s))
    for ln, items in repl.items():
        l = new_lines[ln]
        for a, b, s in sorted(items, reverse=True):
            l = l[:a] + s + l[b:]
        new_lines[ln] = l
    n = sum(len(v) for v in repl.values())
    return "\n".join(lines[:lo] + new_lines + lines[hi:]), n


def rename_whole_file(src):
    """every function and method of the file (not the functions nested in them), bottom up so that line numbers stay valid"""
    tree = ast.parse(src)
    funcs = []
    for n in tree.body:
        if isinstance(n, ast.FunctionDef):
            funcs.append(n)
        elif isinstance(n, ast.ClassDef):
            funcs += [b for b in n.body if isinstance(b, ast.FunctionDef)]
    total = 0
    for f in sorted(funcs, key=lambda f: -f.lineno):
        new, n = rename_locals(src, f)
        if new is not None and n:
            try:
                ast.parse(new)
            except SyntaxError:
                continue
            src, total = new, total + n
    return src, total


def run_one(job):
    rel, qual, repo, checks = job
    src_path = os.path.join(repo, "src", "fparser", rel)
    src = open(src_path).read()
    if qual == "*":
        new, n = rename_whole_file(src)
    else:
        func = find_func(ast.parse(src), qual)
        if func is None:
            return (rel, qual, "SKIP", "function not found")
        new, n = rename_locals(src, func)
    if new is None or n == 0:
        return (rel, qual, "SKIP", "no locals")
    try:
        ast.parse(new)
    except SyntaxError as err:
        return (rel, qual, "SKIP", "rename gave a syntax error: %s" % err)
    tmp = tempfile.mkdtemp(prefix="vren_", dir=os.environ.get("VERIF_SCRATCH", "/tmp"))
    try:
        shutil.copytree(os.path.join(repo, "src", "fparser"), os.path.join(tmp, "src", "fparser"), ignore=shutil.ignore_patterns("tests", "__pycache__"))
        open(os.path.join(tmp, "src", "fparser", rel), "w").write(new)
        bad = []
        for c in checks:
            env = dict(os.environ, VERIF_EVIDENCE_DIR=os.path.join(tmp, "ev"))
            r = subprocess.run([os.path.join(VERIF, "check"), c, "--repo", tmp, "--tier", "quick"], capture_output=True, text=True, env=env)
            if r.returncode != 0:
                msg = [l for l in r.stdout.splitlines() if l.startswith(("  C", "ANALYSIS-ERROR"))][:2]
                bad.append("%s exit %d: %s" % (c, r.returncode, " | ".join(x[:200] for x in msg)))
        return (rel, qual, "FAIL" if bad else "OK", "; ".join(bad) if bad else "%d occurrences renamed" % n)
    finally:
        shutil.rmtree(tmp, ignore_errors=True)


def main():
    ap = argparse.ArgumentParser()
    ap.add_argument("--jobs", type=int, default=16)
    ap.add_argument("--only")
    ap.add_argument("--checks")
    ap.add_argument("--repo", default="/repo")
    ap.add_argument("--files", action="store_true", help="one twin per source file: the locals of all its functions renamed at once")
    a = ap.parse_args()
    man = json.load(open(os.path.join(VERIF, "MANIFEST.json")))
    checks = a.checks.split(",") if a.checks else [c["property_id"] for c in man["checks"]]
    jobs = [(rel, q, a.repo, checks) for rel, quals in TARGETS for q in quals if not a.only or a.only in q]
    if a.files:
        jobs = []
        root = os.path.join(a.repo, "src", "fparser")
        for d, _dirs, files in os.walk(root):
            if "tests" in d.split(os.sep) or "scripts" in d.split(os.sep):
                continue
            for fn in sorted(files):
                if fn.endswith(".py") and fn != "__init__.py":
                    rel = os.path.relpath(os.path.join(d, fn), root)
                    if not a.only or a.only in rel:
                        jobs.append((rel, "*", a.repo, checks))
    fails = 0
    with cf.ThreadPoolExecutor(max_workers=a.jobs) as ex:
        for rel, q, status, text in ex.map(run_one, jobs):
            print("%-5s %-24s %-48s %s" % (status, rel, q, text[:600]))
            fails += status == "FAIL"
    print("rename twins: %d functions, %d with a check that was not silent" % (len(jobs), fails))
    return 2 if fails else 0


if __name__ == "__main__":
    sys.exit(main())
