#!/venv/bin/python
"""Behaviour-preserving twins by reshaping: the whole package is rewritten (ast -> transformation -> ast.unparse) with
  ret   every `return <expression>` becomes `_ret = <expression>; return _ret`
  first every function starts with a no-op assignment (all statements move)
  both
  cond  `if c: A else: B` becomes `if not c: B else: A`
  cmp   `a is not b` / `a != b` / `a not in b` become `not (a is b)` / `not (a == b)` / `not (a in b)`
  all   everything above
  methods  the methods of every class in alphabetical order
  while    `while 1:` becomes `while True:`
  extract  `x = f(g(a), h(b))` becomes `_a0 = g(a); _a1 = h(b); x = f(_a0, _a1)`
  all2     methods + while + extract
and every claimed check must still exit 0 on the result.  Comments and layout are lost by unparse, which is part of the twin.
Usage: selftest/shape_twins.py [--kind ret|first|both] [--checks C04,C12] [--keep DIR]
Exit 0 when every check is silent; exit 2 otherwise (a defect of the checker, never a verdict about /repo)."""
import argparse
import ast
import concurrent.futures as cf
import json
import os
import shutil
import subprocess
import sys
import tempfile

HERE = os.path.dirname(os.path.abspath(__file__))
VERIF = os.path.dirname(HERE)


class Reshape(ast.NodeTransformer):
    def __init__(self, kind):
        self.kind = kind
        self.depth = 0
        self.counter = 0

    def visit_FunctionDef(self, node):
        self.depth += 1
        self.generic_visit(node)
        self.depth -= 1
        if self.kind in ("first", "both", "all"):
            k = 1 if (node.body and isinstance(node.body[0], ast.Expr) and isinstance(node.body[0].value, ast.Constant)
                      and isinstance(node.body[0].value.value, str)) else 0
            marker = ast.Assign(targets=[ast.Name(id="_twin_marker", ctx=ast.Store())], value=ast.Constant(value=None), lineno=0)
            node.body.insert(k, marker)
        return node

    def visit_ClassDef(self, node):
        self.generic_visit(node)
        if self.kind in ("methods", "all2"):
            # the methods of a class in alphabetical order (the other statements of the class body stay in front, in their order)
            funcs = [b for b in node.body if isinstance(b, ast.FunctionDef)]
            rest = [b for b in node.body if not isinstance(b, ast.FunctionDef)]
            # (a class body that uses a method as a value -- `tostr = tostr_a` -- keeps its order)
            used = {n.id for b in rest for n in ast.walk(b) if isinstance(n, ast.Name)}
            if not (used & {f.name for f in funcs}):
                node.body = rest + sorted(funcs, key=lambda f: f.name)
        return node

    def visit_While(self, node):
        self.generic_visit(node)
        if self.kind in ("while", "all2") and isinstance(node.test, ast.Constant) and node.test.value == 1 and node.test.value is not True:
            node.test = ast.Constant(value=True)
        return node

    def _hoist(self, s):
        """`x = f(g(a), h(b))` -> `_a0 = g(a); _a1 = h(b); x = f(_a0, _a1)` (arguments are evaluated in the same order)"""
        val = s.value if isinstance(s, (ast.Assign, ast.Expr, ast.Return, ast.AugAssign)) else None
        if not isinstance(val, ast.Call) or self.depth == 0:
            return [s]
        if any(isinstance(a, ast.Starred) for a in val.args) or any(isinstance(n, (ast.NamedExpr, ast.Yield, ast.YieldFrom, ast.Lambda, ast.Await))
                                                                      for n in ast.walk(val)):
            return [s]
        pre = []
        for i, a in enumerate(val.args):
            if isinstance(a, ast.Call):
                self.counter += 1
                name = "_a%d" % self.counter
                pre.append(ast.Assign(targets=[ast.Name(id=name, ctx=ast.Store())], value=a, lineno=0))
                val.args[i] = ast.Name(id=name, ctx=ast.Load())
            elif not isinstance(a, (ast.Name, ast.Constant, ast.Attribute)):
                break           # an argument that is evaluated in between keeps its place: stop hoisting here
        return pre + [s]

    def _block(self, stmts):
        if self.kind in ("extract", "all2"):
            stmts = [x for s in stmts for x in self._hoist(s)]
        out = []
        for s in stmts:
            if isinstance(s, ast.Return) and s.value is not None and not isinstance(s.value, (ast.Name, ast.Constant)) and self.kind in ("ret", "both", "all") \
                    and self.depth > 0:
                out.append(ast.Assign(targets=[ast.Name(id="_ret", ctx=ast.Store())], value=s.value, lineno=0))
                out.append(ast.Return(value=ast.Name(id="_ret", ctx=ast.Load())))
            else:
                out.append(s)
        return out

    def visit_If(self, node):
        self.generic_visit(node)
        if self.kind in ("cond", "all") and node.body and node.orelse and not (len(node.orelse) == 1 and isinstance(node.orelse[0], ast.If)):
            # `if c: A else: B`  ->  `if not c: B else: A`
            node.test = ast.UnaryOp(op=ast.Not(), operand=node.test)
            node.body, node.orelse = node.orelse, node.body
        return node

    def visit_Compare(self, node):
        self.generic_visit(node)
        if self.kind in ("cmp", "all") and len(node.ops) == 1:
            flip = {ast.IsNot: ast.Is, ast.NotEq: ast.Eq, ast.NotIn: ast.In}
            for neg, pos in flip.items():
                if isinstance(node.ops[0], neg):
                    return ast.UnaryOp(op=ast.Not(), operand=ast.Compare(left=node.left, ops=[pos()], comparators=node.comparators))
        return node

    def generic_visit(self, node):
        super().generic_visit(node)
        for field in ("body", "orelse", "finalbody"):
            v = getattr(node, field, None)
            if isinstance(v, list) and v and isinstance(v[0], ast.stmt):
                setattr(node, field, self._block(v))
        if isinstance(node, ast.Try):
            for h in node.handlers:
                h.body = self._block(h.body)
        return node


def reshape_tree(src_root, dst_root, kind):
    n = 0
    for d, _dirs, files in os.walk(src_root):
        parts = d.split(os.sep)
        if "tests" in parts or "__pycache__" in parts:
            continue
        for fn in files:
            rel = os.path.relpath(os.path.join(d, fn), src_root)
            os.makedirs(os.path.dirname(os.path.join(dst_root, rel)), exist_ok=True)
            if not fn.endswith(".py") or "scripts" in parts:
                shutil.copy(os.path.join(d, fn), os.path.join(dst_root, rel))
                continue
            src = open(os.path.join(d, fn)).read()
            tree = ast.parse(src)
            tree = Reshape(kind).visit(tree)
            ast.fix_missing_locations(tree)
            open(os.path.join(dst_root, rel), "w").write(ast.unparse(tree) + "\n")
            n += 1
    return n


def main():
    ap = argparse.ArgumentParser()
    ap.add_argument("--kind", default="both")
    ap.add_argument("--checks")
    ap.add_argument("--repo", default="/repo")
    ap.add_argument("--keep")
    a = ap.parse_args()
    man = json.load(open(os.path.join(VERIF, "MANIFEST.json")))
    checks = a.checks.split(",") if a.checks else [c["property_id"] for c in man["checks"]]
    tmp = a.keep or tempfile.mkdtemp(prefix="vshape_", dir=os.environ.get("VERIF_SCRATCH", "/tmp"))
    try:
        if os.path.isdir(os.path.join(tmp, "src")):
            shutil.rmtree(os.path.join(tmp, "src"))
        n = reshape_tree(os.path.join(a.repo, "src", "fparser"), os.path.join(tmp, "src", "fparser"), a.kind)
        print("reshaped %d modules (%s) into %s" % (n, a.kind, tmp))

        def one(c):
            env = dict(os.environ, VERIF_EVIDENCE_DIR=os.path.join(tmp, "ev_" + c))
            r = subprocess.run([os.path.join(VERIF, "check"), c, "--repo", tmp, "--tier", "quick"], capture_output=True, text=True, env=env)
            msg = [l for l in r.stdout.splitlines() if l.startswith(("  C", "ANALYSIS-ERROR"))][:3]
            return c, r.returncode, msg
        bad = 0
        with cf.ThreadPoolExecutor(max_workers=16) as ex:
            for c, rc, msg in ex.map(one, checks):
                print("%-4s %s %s" % (c, "OK" if rc == 0 else "FAIL exit %d" % rc, " | ".join(x[:260] for x in msg)))
                bad += rc != 0
        print("shape twin (%s): %d checks not silent" % (a.kind, bad))
        return 2 if bad else 0
    finally:
        if not a.keep:
            shutil.rmtree(tmp, ignore_errors=True)


if __name__ == "__main__":
    sys.exit(main())
