#!/venv/bin/python
"""Self-test of the checkers: each variant is one semantic edit of a scratch copy of /repo/src; the named check
must then report a violation of the named rule (kind 'break'), or stay silent (kind 'twin', a behaviour-preserving
edit).  Usage: selftest/run.py [--only C08] [--jobs 16] [--id name]
A variant whose anchor text is not found in the current tree is SKIPPED and listed, never failed.
Exit 0: all located variants behaved; exit 2: a checker missed a break or fired on a twin (defect of the checker,
never a verdict about /repo)."""
import argparse
import concurrent.futures as cf
import json
import os
import shutil
import subprocess
import sys
import tempfile

HERE = os.path.dirname(os.path.abspath(__file__))
VERIF = os.path.dirname(HERE)


def load_variants():
    out = []
    for fn in sorted(os.listdir(HERE)):
        if fn.startswith("variants") and fn.endswith(".json"):
            out += json.load(open(os.path.join(HERE, fn)))
    return out


def load_seeded():
    """The independently seeded changes kept under /verif/seeded: each must (still) be reported by the property's own check
    when meta.json says it is caught; the documented misses are listed, not failed."""
    out = []
    root = os.path.join(VERIF, "seeded")
    if not os.path.isdir(root):
        return out
    for d in sorted(os.listdir(root)):
        mp = os.path.join(root, d, "meta.json")
        if not os.path.exists(mp):
            continue
        meta = json.load(open(mp))
        out.append({"id": "seeded-" + d, "property": meta["property"], "patch": os.path.join(root, d, "patch.diff"),
                    "kind": "break" if meta.get("own_check_catches") else "documented-miss", "edits": []})
    return out


def run_one(v, repo):
    tmp = tempfile.mkdtemp(prefix="vsel_", dir=os.environ.get("VERIF_SCRATCH", "/tmp"))
    try:
        shutil.copytree(os.path.join(repo, "src", "fparser"), os.path.join(tmp, "src", "fparser"),
                        ignore=shutil.ignore_patterns("tests", "__pycache__"))
        if v.get("patch"):
            r = subprocess.run(["patch", "-p1", "-s", "-d", tmp, "-i", v["patch"]], capture_output=True, text=True)
            if r.returncode != 0:
                return v, "SKIP", "seeded patch no longer applies"
        if v.get("transform"):
            # a whole-package twin: every local renamed (selftest/rename_twins.py) / every function reshaped (selftest/shape_twins.py)
            sys.path.insert(0, HERE)
            root = os.path.join(tmp, "src", "fparser")
            if v["transform"] == "rename":
                import rename_twins
                for d, _dirs, files in os.walk(root):
                    for fn in files:
                        if fn.endswith(".py") and fn != "__init__.py":
                            path = os.path.join(d, fn)
                            new, n = rename_twins.rename_whole_file(open(path).read())
                            if n:
                                open(path, "w").write(new)
            else:
                import shape_twins
                dst = os.path.join(tmp, "reshaped")
                shape_twins.reshape_tree(root, os.path.join(dst, "fparser"), v["transform"])
                shutil.rmtree(root)
                shutil.move(os.path.join(dst, "fparser"), root)
        for rel in v.get("prepend", []):
            path = os.path.join(tmp, "src", "fparser", rel)
            text = open(path).read()
            open(path, "w").write("# twin: shifted by the checker self-test\n\n\n" + text)
        for ed in v["edits"]:
            path = os.path.join(tmp, "src", "fparser", ed["file"])
            if not os.path.exists(path):
                return v, "SKIP", "file %s missing" % ed["file"]
            text = open(path).read()
            cnt = text.count(ed["old"])
            if cnt != ed.get("count", 1):
                return v, "SKIP", "anchor found %d times in %s" % (cnt, ed["file"])
            text = text.replace(ed["old"], ed["new"])
            open(path, "w").write(text)
            r = subprocess.run(["/venv/bin/python", "-m", "py_compile", path], capture_output=True, text=True)
            if r.returncode != 0:
                return v, "SKIP", "variant does not compile"
        env = dict(os.environ)
        env["VERIF_EVIDENCE_DIR"] = os.path.join(tmp, "evidence")
        r = subprocess.run([os.path.join(VERIF, "check"), v["property"], "--repo", tmp],
                           capture_output=True, text=True, env=env)
        outp = r.stdout + r.stderr
        if v.get("kind") == "documented-miss":
            return v, "OK", ("documented miss (still not caught)" if r.returncode == 0 else "documented miss is NOW reported (exit %d)" % r.returncode)
        if v.get("kind", "break") == "twin":
            if r.returncode == 0:
                return v, "OK", "silent on behaviour-preserving twin"
            return v, "FAIL", "fired on twin (exit %d): %s" % (r.returncode, outp[-600:])
        if v.get("kind") == "analysis-error":
            if r.returncode == 2 and "ANALYSIS-ERROR" in outp:
                return v, "OK", "declined (analysis error), as designed"
            return v, "FAIL", "exit %d, expected ANALYSIS-ERROR; tail: %s" % (r.returncode, outp[-400:])
        if r.returncode == 1 and (not v.get("expect") or v["expect"] in outp):
            return v, "OK", "reported"
        return v, "FAIL", "exit %d, expected a VIOLATION mentioning %r; output tail: %s" % (
            r.returncode, v.get("expect"), outp[-800:])
    finally:
        shutil.rmtree(tmp, ignore_errors=True)


def main():
    ap = argparse.ArgumentParser()
    ap.add_argument("--only")
    ap.add_argument("--id")
    ap.add_argument("--jobs", type=int, default=16)
    ap.add_argument("--repo", default="/repo")
    args = ap.parse_args()
    vs = load_variants() + load_seeded()
    # a formatting-only twin for every claimed property: all line numbers of the main modules shift
    try:
        man = json.load(open(os.path.join(VERIF, "MANIFEST.json")))
        for c in man["checks"]:
            vs.append({"id": "%s-twin-line-shift" % c["property_id"], "property": c["property_id"], "kind": "twin", "edits": [],
                       "prepend": ["two/utils.py", "two/Fortran2003.py", "common/readfortran.py", "common/splitline.py",
                                   "common/sourceinfo.py", "two/symbol_table.py", "two/parser.py", "one/statements.py"]})
            vs.append({"id": "%s-twin-package-renamed" % c["property_id"], "property": c["property_id"], "kind": "twin", "edits": [],
                       "transform": "rename"})
            vs.append({"id": "%s-twin-package-reshaped" % c["property_id"], "property": c["property_id"], "kind": "twin", "edits": [],
                       "transform": "all"})
    except (OSError, ValueError, KeyError):
        pass
    if args.only:
        vs = [v for v in vs if v["property"] == args.only]
    if args.id:
        vs = [v for v in vs if v["id"] == args.id]
    res = []
    with cf.ThreadPoolExecutor(max_workers=args.jobs) as ex:
        for v, status, msg in ex.map(lambda v: run_one(v, args.repo), vs):
            res.append((v, status, msg))
            print("%-5s %-4s %-40s %s" % (status, v["property"], v["id"], msg if status != "OK" or "documented" in msg else ""))
    n_ok = sum(1 for r in res if r[1] == "OK")
    n_skip = sum(1 for r in res if r[1] == "SKIP")
    n_fail = sum(1 for r in res if r[1] == "FAIL")
    print("selftest: %d ok, %d skipped, %d failed of %d" % (n_ok, n_skip, n_fail, len(res)))
    return 2 if n_fail else 0


if __name__ == "__main__":
    sys.exit(main())
